"""Shared runner: tiers, sharding over worker processes, violations -> replay files ->
fresh-process confirmation -> known findings, evidence files.

Exit codes: 0 property held on everything explored (KNOWN-FINDING lines allowed);
1 at least one confirmed violation that known_findings.json does not list;
2 harness error (build failure, non-reproducing failure, internal error).
"""
import collections
import hashlib
import importlib
import json
import multiprocessing
import os
import subprocess
import sys
import time
import traceback

from . import paths

NWORKERS = int(os.environ.get("VERIF_WORKERS", "16"))
MAX_REPORTED = 12          # distinct unknown signatures confirmed and printed per run


class HarnessError(Exception):
    pass


class Stats:
    """Mergeable record of what a (part of a) run covered."""

    def __init__(self):
        self.evaluations = 0        # cases generated and checked
        self.states = 0             # distinct canonical cases / states / tapes
        self.transitions = 0        # operations applied / API calls executed / choice points expanded
        self.traces = 0             # executions on the real code
        self.nontrivial = 0
        self.outcomes = collections.Counter()
        self.skipped = collections.Counter()
        self.caps = collections.Counter()
        self.samples = []
        self.viol = []              # (signature, case, message)
        self.nviol = 0
        self.extra = {}

    def sample(self, case, limit=3):
        if len(self.samples) < limit:
            self.samples.append(case)

    def violation(self, sig, case, msg):
        self.nviol += 1
        if len(self.viol) < 400 and sum(1 for v in self.viol if v[0] == sig) < 3:
            self.viol.append((sig, case, msg))

    def merge(self, o):
        self.evaluations += o.evaluations
        self.states += o.states
        self.transitions += o.transitions
        self.traces += o.traces
        self.nontrivial += o.nontrivial
        self.outcomes.update(o.outcomes)
        self.skipped.update(o.skipped)
        self.caps.update(o.caps)
        self.nviol += o.nviol
        for v in o.viol:
            if len(self.viol) < 2000:
                self.viol.append(v)
        for s in o.samples:
            self.samples.append(s)
        for k, v in o.extra.items():
            if isinstance(v, (int, float)) and isinstance(self.extra.get(k, 0), (int, float)):
                self.extra[k] = self.extra.get(k, 0) + v
            elif isinstance(v, (int, float)):
                self.extra[k] = v
            elif isinstance(v, list):
                self.extra.setdefault(k, [])
                self.extra[k].extend(v)
            elif isinstance(v, dict):
                self.extra.setdefault(k, {})
                for kk, vv in v.items():
                    if isinstance(vv, (int, float)):
                        self.extra[k][kk] = self.extra[k].get(kk, 0) + vv
                    else:
                        self.extra[k][kk] = vv
            else:
                self.extra[k] = v
        return self


# ------------------------------------------------------------------ parallel map

_TASK = None


def _call(arg):
    try:
        return ("ok", _TASK(arg))
    except BaseException:  # noqa
        return ("err", traceback.format_exc())


def pmap(fn, args, workers=None):
    """Run fn over args in forked workers (fn may be a closure); results in order."""
    global _TASK
    args = list(args)
    workers = min(workers or NWORKERS, max(1, len(args)))
    if workers <= 1 or os.environ.get("VERIF_SERIAL"):
        return [fn(a) for a in args]
    _TASK = fn
    ctx = multiprocessing.get_context("fork")
    with ctx.Pool(workers) as pool:
        out = pool.map(_call, args, chunksize=1)
    _TASK = None
    res = []
    for tag, val in out:
        if tag == "err":
            raise HarnessError("worker failed:\n" + val)
        res.append(val)
    return res


def library_exception(e):
    """If the exception was raised INSIDE the library under test (innermost frame in REPO/qubovert) while a check was
    handling a case, return (signature, message): the library rejected or crashed on an input that the check -- silent on the
    unchanged tree with exactly the same input -- treats as valid.  Otherwise None (a bug of the harness)."""
    from .paths import REPO
    tb = traceback.extract_tb(e.__traceback__)
    if not tb:
        return None
    last = tb[-1]
    root = os.path.join(os.path.realpath(REPO), "qubovert") + os.sep
    if not os.path.realpath(last.filename).startswith(root):
        return None
    where = "%s:%d in %s" % (os.path.relpath(os.path.realpath(last.filename), os.path.realpath(REPO)), last.lineno, last.name)
    harness = [f for f in tb if "/vt/" in f.filename]
    via = (" (called from %s:%d)" % (os.path.basename(harness[-1].filename), harness[-1].lineno)) if harness else ""
    return ("library-raises|%s|%s" % (type(e).__name__, last.name),
            "the library raised %s(%s) at %s%s on an input this check passes to it on the unchanged tree without error"
            % (type(e).__name__, str(e)[:200], where, via))


def explore_cases(ctx, gen, check, nshards=None, label=""):
    """Engine A driver.  gen() yields JSON-able cases; check(case, stats) records into stats.

    Cases are assigned round-robin to shards by index (rotated by the seed, so the seed
    changes which worker sees what and which samples are shown -- never *what* is explored).
    Every worker iterates the (cheap) generator and processes only its own indices.
    """
    nshards = nshards or NWORKERS * 4
    seed = ctx.seed

    def work(k):
        st = Stats()
        for i, case in enumerate(gen()):
            if (i + seed) % nshards != k:
                continue
            st.evaluations += 1
            st.states += 1
            if (i + seed * 7919) % 9973 == 0:
                st.sample(case, 2)
            try:
                check(case, st)
            except HarnessError:
                raise
            except Exception as e:
                lib = library_exception(e)
                if lib is None:
                    raise HarnessError("check crashed on case %s\n%s" % (json.dumps(case, default=str)[:2000],
                                                                          traceback.format_exc()))
                st.violation(lib[0], case, "%s %s: %s" % (ctx.pid, json.dumps(case, default=str)[:300], lib[1]))
        return st

    t0 = time.time()
    for st in pmap(work, range(nshards)):
        ctx.stats.merge(st)
    if label:
        ctx.log("%s: %d cases in %.1fs" % (label, ctx.stats.evaluations, time.time() - t0))


# ------------------------------------------------------------------ context

class Ctx:
    def __init__(self, pid, tier, seed):
        self.pid, self.tier, self.seed = pid, tier, seed
        self.quick = tier == "quick"
        self.stats = Stats()
        self.bounds = {}
        self.assumptions = []
        self.rule = ""
        self.exhaustive = True
        self.notes = []
        self.t0 = time.time()

    def log(self, msg):
        print("[%s %s +%.0fs] %s" % (self.pid, self.tier, time.time() - self.t0, msg), flush=True)


# ------------------------------------------------------------------ known findings

def load_known():
    try:
        with open(paths.KNOWN) as f:
            return json.load(f).get("findings", [])
    except FileNotFoundError:
        return []


def match_known(pid, sig, known):
    import fnmatch
    for k in known:
        if k.get("property") == pid and k.get("status") == "known":
            if k.get("signature") == sig or fnmatch.fnmatchcase(sig, k.get("signature", "")):
                return k
    return None


# ------------------------------------------------------------------ replay

def write_replay(pid, sig, case, msg):
    blob = json.dumps({"property": pid, "signature": sig, "case": case, "message": msg},
                      sort_keys=True, indent=1, default=str)
    h = hashlib.sha1(json.dumps({"p": pid, "s": sig, "c": case}, sort_keys=True, default=str).encode()).hexdigest()[:12]
    d = os.path.join(paths.REPLAYS, pid)
    os.makedirs(d, exist_ok=True)
    path = os.path.join(d, h + ".json")
    with open(path, "w") as f:
        f.write(blob + "\n")
    return path


def run_replay_subprocess(path, timeout=600):
    env = dict(os.environ)
    env["PYTHONHASHSEED"] = "0"
    p = subprocess.run([sys.executable, "-m", "vt.cli", "replay", path, "--json"], cwd=paths.VERIF,
                       env=env, capture_output=True, text=True, timeout=timeout)
    for line in p.stdout.splitlines():
        if line.startswith("REPLAY-RESULT "):
            return json.loads(line[len("REPLAY-RESULT "):])
    raise HarnessError("replay of %s produced no result (exit %s)\n%s\n%s" % (path, p.returncode, p.stdout[-2000:], p.stderr[-2000:]))


def do_replay(path, as_json=False):
    with open(path) as f:
        rec = json.load(f)
    mod = importlib.import_module("vt.checks." + rec["property"].lower())
    try:
        found = mod.replay(rec["case"])
    except HarnessError:
        raise
    except Exception as e:
        lib = library_exception(e)
        if lib is None:
            raise
        found = [(lib[0], "%s %s: %s" % (rec["property"], json.dumps(rec["case"], default=str)[:300], lib[1]))]
    found = [[s, m] for s, m in found]
    if as_json:
        print("REPLAY-RESULT " + json.dumps({"violations": found}, default=str))
        return 0
    if not found:
        print("replay %s: property %s holds on this case" % (path, rec["property"]))
        return 0
    for s, m in found:
        print("replay %s: %s\n   signature=%s" % (path, m, s))
    print("VIOLATION property=%s replay=%s" % (rec["property"], path))
    return 1


# ------------------------------------------------------------------ main entry for one check

def run_check(pid, tier, seed):
    mod = importlib.import_module("vt.checks." + pid.lower())
    ctx = Ctx(pid, tier, seed)
    rc = 0
    try:
        # build + import the code under test once, in the parent, before any worker is forked
        if getattr(mod, "META", {}).get("engine", "").find("tapedfs") >= 0 and pid != "C17":
            from . import tape
            tape.lib()
        else:
            paths.import_qubovert("plain")
        mod.run(ctx)
    except HarnessError as e:
        print("HARNESS-ERROR %s: %s" % (pid, e), flush=True)
        return 2
    except Exception as e:  # e.g. BuildError: harness failure, never a violation
        print("HARNESS-ERROR %s: %r" % (pid, e), flush=True)
        return 2
    st = ctx.stats
    known = load_known()
    # group violations by signature, confirm each signature's first witness in fresh processes
    by_sig = collections.OrderedDict()
    for sig, case, msg in st.viol:
        by_sig.setdefault(sig, (case, msg))
    printed_known = set()
    unknown_reported = 0
    confirmed_unknown = 0
    for sig, (case, msg) in by_sig.items():
        k = match_known(pid, sig, known)
        if k is None and unknown_reported >= MAX_REPORTED:
            continue
        if k is not None and k["signature"] in printed_known:
            continue        # this listed finding has already been confirmed and printed through another witness
        path = write_replay(pid, sig, case, msg)
        ok = 0
        try:
            for _ in range(2):
                r = run_replay_subprocess(path)
                if any(s == sig for s, _m in r["violations"]):
                    ok += 1
        except (HarnessError, subprocess.TimeoutExpired) as e:
            print("HARNESS-ERROR %s: %s" % (pid, e), flush=True)
            rc = max(rc, 2)
            continue
        if ok < 2:
            print("HARNESS-ERROR %s: failure with signature %s did not reproduce in a fresh process "
                  "(%d/2): nondeterminism the harness does not own; replay=%s" % (pid, sig, ok, path), flush=True)
            rc = max(rc, 2)
            continue
        if k is not None:
            if k["signature"] not in printed_known:
                printed_known.add(k["signature"])
                print("KNOWN-FINDING: property=%s %s [signature=%s replay=%s]" % (pid, k.get("witness", msg), sig, path), flush=True)
            continue
        unknown_reported += 1
        confirmed_unknown += 1
        print("  %s\n  signature=%s" % (msg, sig), flush=True)
        print("VIOLATION property=%s replay=%s" % (pid, path), flush=True)
    if len(by_sig) > MAX_REPORTED:
        print("all %d violation signatures of this run:" % len(by_sig))
        for sig in by_sig:
            print("   " + sig)
    if confirmed_unknown:
        rc = 1 if rc == 0 else rc
        if rc == 2:
            rc = 1
    write_evidence(ctx, len(by_sig), confirmed_unknown, len(printed_known))
    ctx.log("done: evaluations=%d states=%d transitions=%d violations(raw)=%d signatures=%d unknown=%d known=%d exit=%d"
            % (st.evaluations, st.states, st.transitions, st.nviol, len(by_sig), confirmed_unknown, len(printed_known), rc))
    return rc


def write_evidence(ctx, nsig, nunknown, nknown):
    st = ctx.stats
    seen = set()
    samples = []
    for s in st.samples:
        key = json.dumps(s, sort_keys=True, default=str)
        if key not in seen:
            seen.add(key)
            samples.append(s)
    # rotate by seed so different runs show different samples; keep a handful
    if samples:
        r = ctx.seed % len(samples)
        samples = (samples[r:] + samples[:r])[:6]
    cov = {
        "states": st.states,
        "transitions": st.transitions,
        "traces_validated_against_impl": st.traces,
        "samples": samples or ["(none)"],
        "evaluations": st.evaluations,
        "distinct_nontrivial": st.nontrivial,
        "rule": ctx.rule,
        "exhaustive": bool(ctx.exhaustive and not st.caps),
        "bounds": ctx.bounds,
        "caps_hit": dict(st.caps),
        "skipped": dict(st.skipped),
        "distinct_outcomes": len(st.outcomes),
        "outcomes": dict(st.outcomes.most_common(40)),
        "violation_signatures": nsig,
        "known_findings_matched": nknown,
        "workers": NWORKERS,
        "repo": paths.REPO,
    }
    for k, v in st.extra.items():
        cov.setdefault(k, v)
    if ctx.notes:
        cov["notes"] = ctx.notes
    ev = {
        "property_id": ctx.pid,
        "tier": ctx.tier,
        "seed": ctx.seed,
        "level": "model_checking",
        "coverage": cov,
        "assumptions": ctx.assumptions,
        "wall_s": round(time.time() - ctx.t0, 2),
        "violations": nunknown,
    }
    os.makedirs(paths.EVIDENCE, exist_ok=True)
    tmp = os.path.join(paths.EVIDENCE, ".%s.json.tmp" % ctx.pid)
    with open(tmp, "w") as f:
        json.dump(ev, f, indent=1, sort_keys=True, default=str)
        f.write("\n")
    os.replace(tmp, os.path.join(paths.EVIDENCE, "%s.json" % ctx.pid))
