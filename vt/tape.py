"""Engine C plumbing: run real annealer calls under a scripted RNG tape and read the request log.

The `scripted` build of `_canneal` is injected as qubovert.sim._canneal (paths.import_qubovert("scripted"))
and the same shared object is opened with ctypes to reach the tape / log arrays of shim/pcg_scripted.c.
"""
import ctypes
import os

from . import cbuild, paths

# "scripted" or, in the C17 driver, "scripted_asan"
VARIANT = os.environ.get("VT_SCRIPTED_VARIANT", "scripted")

MAXLOG = 4096
_lib = None


def lib():
    global _lib
    if _lib is None:
        paths.import_qubovert(VARIANT)
        so = cbuild.build(VARIANT)
        L = ctypes.CDLL(so)
        L.vt_reset.restype = None
        _lib = {
            "L": L,
            "tape": (ctypes.c_uint32 * MAXLOG).in_dll(L, "vt_tape"),
            "tape_len": ctypes.c_int.in_dll(L, "vt_tape_len"),
            "pos": ctypes.c_int.in_dll(L, "vt_pos"),
            "kind": (ctypes.c_int * MAXLOG).in_dll(L, "vt_log_kind"),
            "bound": (ctypes.c_uint32 * MAXLOG).in_dll(L, "vt_log_bound"),
            "overflow": ctypes.c_int.in_dll(L, "vt_overflow"),
            "seed_state": (ctypes.c_uint64 * 64).in_dll(L, "vt_seed_state"),
            "seed_seq": (ctypes.c_uint64 * 64).in_dll(L, "vt_seed_seq"),
            "seed_calls": ctypes.c_int.in_dll(L, "vt_seed_calls"),
            "clock": ctypes.c_long.in_dll(L, "vt_clock"),
            "time_calls": ctypes.c_int.in_dll(L, "vt_time_calls"),
        }
        # sanity: the injected extension and the ctypes handle are the same object in memory
        import qubovert.sim._anneal as A
        import sys
        if sys.modules["qubovert.sim._canneal"].c_anneal_quso is not A.c_anneal_quso:
            raise RuntimeError("scripted _canneal is not the one qubovert uses")
    return _lib


def run(tape, fn, clock=1000):
    """Execute fn() with the given tape.  Returns (result, log) where log = [(kind, bound), ...] of ALL requests."""
    l = lib()
    n = len(tape)
    if n > MAXLOG:
        raise ValueError("tape too long")
    t = l["tape"]
    for i, v in enumerate(tape):
        t[i] = v
    l["tape_len"].value = n
    l["clock"].value = clock
    l["L"].vt_reset()
    res = fn()
    if l["overflow"].value:
        raise RuntimeError("request log overflow (> %d draws)" % MAXLOG)
    m = l["pos"].value
    k, b = l["kind"], l["bound"]
    log = [(k[i], b[i]) for i in range(m)]
    return res, log


def seeds():
    l = lib()
    n = min(l["seed_calls"].value, 64)
    return [(int(l["seed_state"][i]), int(l["seed_seq"][i])) for i in range(n)], l["time_calls"].value
