"""Locations and import plumbing.

The code under test is always REPO's *working tree*: REPO is put first on sys.path
so that `import qubovert` resolves there, and the C extension is rebuilt from REPO's
sources and injected before qubovert is imported (see cbuild.py).
"""
import os
import sys

VERIF = os.path.dirname(os.path.dirname(os.path.abspath(__file__)))
REPO = os.path.abspath(os.environ.get("VERIF_REPO", "/repo"))
CACHE = os.path.join(VERIF, ".cache")
# evidence/ and replays/ describe /repo only; runs against a scratch copy (VERIF_REPO, used for the detection
# demonstrations) write under .cache/scratch so that committed evidence always comes from /repo itself
_SCRATCH = os.path.realpath(REPO) != os.path.realpath("/repo")
EVIDENCE = os.path.join(CACHE, "scratch", "evidence") if _SCRATCH else os.path.join(VERIF, "evidence")
REPLAYS = os.path.join(CACHE, "scratch", "replays") if _SCRATCH else os.path.join(VERIF, "replays")
KNOWN = os.path.join(VERIF, "known_findings.json")
GUARD = "JTIOSUE_QUBOVERT_VERIF"

_imported = False


def import_qubovert(variant="plain"):
    """Import qubovert from REPO with a freshly built `_canneal` of `variant`.

    Returns the qubovert module.  Idempotent per process (the first variant wins).
    """
    global _imported
    if REPO not in sys.path[:1]:
        sys.path.insert(0, REPO)
    if not _imported:
        from . import cbuild
        cbuild.inject(variant)
        _imported = True
    import qubovert
    got = os.path.dirname(os.path.abspath(qubovert.__file__))
    want = os.path.join(REPO, "qubovert")
    if os.path.realpath(got) != os.path.realpath(want):
        raise RuntimeError("qubovert imported from %s, expected %s" % (got, want))
    return qubovert
