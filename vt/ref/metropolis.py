"""Reference single-spin Metropolis chain on an energy table (independent of qubovert).

E is a vector over 2^N assignments; bit i of the index belongs to variable i (the i-th visited
variable); flipping variable i maps index a to a ^ (1 << i).  Acceptance min(1, exp(-dE/T)); at T = 0
a move is accepted iff dE <= 0 (ties: see `tie_policy`).
"""
import math

import numpy as np


def accept_prob(dE, T):
    if dE <= 0:
        return 1.0
    if T <= 0:
        return 0.0
    return math.exp(-dE / T)


def sweep_in_order(dist, E, T, N):
    for i in range(N):
        new = np.zeros_like(dist)
        for a in np.nonzero(dist)[0]:
            a = int(a)
            b = a ^ (1 << i)
            p = accept_prob(E[b] - E[a], T)
            new[b] += dist[a] * p
            new[a] += dist[a] * (1 - p)
        dist = new
    return dist


def sweep_random(dist, E, T, N):
    for _ in range(N):
        new = np.zeros_like(dist)
        for a in np.nonzero(dist)[0]:
            a = int(a)
            for i in range(N):
                b = a ^ (1 << i)
                p = accept_prob(E[b] - E[a], T)
                new[b] += dist[a] * p / N
                new[a] += dist[a] * (1 - p) / N
        dist = new
    return dist


def final_distribution(E, N, start, Ts, in_order):
    dist = np.zeros(1 << N)
    dist[start] = 1.0
    for T in Ts:
        dist = sweep_in_order(dist, E, T, N) if in_order else sweep_random(dist, E, T, N)
    return dist


def thresholds(E, N, Ts):
    """All acceptance probabilities in (0,1) that any decision of the chain can use."""
    out = set()
    for T in set(Ts):
        if T <= 0:
            continue
        for a in range(1 << N):
            for i in range(N):
                dE = E[a ^ (1 << i)] - E[a]
                if dE > 0:
                    out.add(math.exp(-dE / T))
    return sorted(out)


def zero_temp_sweeps(E, N, start, nsweeps, order=None):
    """Deterministic descent: flip iff dE < 0 (strict).  Returns (final index, True if some dE was exactly 0 on the way)."""
    a = start
    tie = False
    for s in range(nsweeps):
        seq = range(N) if order is None else order[s * N:(s + 1) * N]
        for i in seq:
            b = a ^ (1 << i)
            dE = E[b] - E[a]
            if dE == 0:
                tie = True
            if dE < 0:
                a = b
    return a, tie
