"""Reference semantics of pseudo-boolean / spin polynomials as truth tables.

Independent of qubovert.  A model is a mapping  tuple-of-labels -> number.
  boolean value at x:  sum_k v_k * prod_{i in k} x_i        (x_i in {0,1})
  spin value at z:     sum_k v_k * prod_{i in k} z_i        (z_i in {1,-1}), product over the RAW key
Assignment index a in [0, 2^n): bit j of a belongs to labels[j]; boolean x = bit,
spin z = 1 - 2*bit  (the library's correspondence 0 <-> 1, 1 <-> -1), so boolean and spin
tables of equivalent models are equal element-wise.
"""
import itertools

import numpy as np

TOL = 1e-9


def _bits(n):
    a = np.arange(1 << n, dtype=np.int64)
    return [((a >> j) & 1) for j in range(n)]


_BITS_CACHE = {}


def bits(n):
    if n not in _BITS_CACHE:
        b = _bits(n)
        _BITS_CACHE[n] = (b, [1 - 2 * x for x in b])
    return _BITS_CACHE[n]


def key_tuple(k):
    return k if isinstance(k, tuple) else (k,)


def tt(D, labels, spin):
    """Truth table (numpy float vector of length 2^n) of dict-like D over `labels`."""
    labels = list(labels)
    n = len(labels)
    idx = {l: j for j, l in enumerate(labels)}
    b, z = bits(n)
    out = np.zeros(1 << n)
    for k, v in D.items():
        k = key_tuple(k)
        term = np.full(1 << n, float(v))
        if spin:
            for l in k:
                term = term * z[idx[l]]
        else:
            for l in set(k):
                term = term * b[idx[l]]
        out += term
    return out


def labels_of(D):
    """Labels mentioned by the keys of D, in first-appearance order."""
    seen = []
    s = set()
    for k in D:
        for l in key_tuple(k):
            if l not in s:
                s.add(l)
                seen.append(l)
    return seen


def value(D, assign, spin):
    """Direct evaluation at a dict assignment (python numbers; works for any coefficient type)."""
    tot = 0
    for k, v in D.items():
        k = key_tuple(k)
        p = 1
        if spin:
            for l in k:
                p *= assign[l]
        else:
            for l in set(k):
                p *= assign[l]
        tot = tot + v * p
    return tot


def assignments(labels, spin):
    """All assignments as dicts, in table order."""
    labels = list(labels)
    n = len(labels)
    for a in range(1 << n):
        if spin:
            yield {l: 1 - 2 * ((a >> j) & 1) for j, l in enumerate(labels)}
        else:
            yield {l: (a >> j) & 1 for j, l in enumerate(labels)}


def assignment(a, labels, spin):
    if spin:
        return {l: 1 - 2 * ((a >> j) & 1) for j, l in enumerate(labels)}
    return {l: (a >> j) & 1 for j, l in enumerate(labels)}


def moebius(table):
    """Boolean table -> multilinear coefficients indexed by subset mask."""
    c = np.array(table, dtype=float)
    n = int(np.log2(len(c)))
    for j in range(n):
        step = 1 << j
        c = c.reshape(-1, 2, step)
        c[:, 1, :] -= c[:, 0, :]
        c = c.reshape(-1)
    return c


def walsh(table):
    """Spin table (bit=1 <-> z=-1) -> multilinear spin coefficients indexed by subset mask."""
    c = np.array(table, dtype=float)
    n = int(np.log2(len(c)))
    for j in range(n):
        step = 1 << j
        c = c.reshape(-1, 2, step)
        a0 = c[:, 0, :].copy()
        a1 = c[:, 1, :].copy()
        c[:, 0, :] = (a0 + a1) / 2
        c[:, 1, :] = (a0 - a1) / 2
        c = c.reshape(-1)
    return c


def canonical(table, labels, spin):
    """Canonical multilinear dict {sorted-index-tuple: coef} (indices into labels) of a table."""
    c = walsh(table) if spin else moebius(table)
    out = {}
    for m in np.nonzero(np.abs(c) > TOL)[0]:
        m = int(m)
        out[tuple(j for j in range(len(labels)) if (m >> j) & 1)] = float(c[m])
    return out


def true_degree(table, spin):
    c = walsh(table) if spin else moebius(table)
    nz = np.nonzero(np.abs(c) > TOL)[0]
    return max((bin(int(m)).count("1") for m in nz), default=0)


def true_variables(table, labels, spin):
    c = walsh(table) if spin else moebius(table)
    m = 0
    for i in np.nonzero(np.abs(c) > TOL)[0]:
        m |= int(i)
    return {labels[j] for j in range(len(labels)) if (m >> j) & 1}


def close(a, b, tol=TOL):
    return abs(a - b) <= tol * (1 + abs(a) + abs(b)) if isinstance(a, (int, float)) and isinstance(b, (int, float)) else bool(np.all(np.abs(np.asarray(a, dtype=float) - np.asarray(b, dtype=float)) <= tol * (1 + np.abs(np.asarray(b, dtype=float)))))


def tables_equal(t1, t2, tol=TOL):
    t1 = np.asarray(t1, dtype=float)
    t2 = np.asarray(t2, dtype=float)
    return t1.shape == t2.shape and bool(np.all(np.abs(t1 - t2) <= tol * (1 + np.abs(t2))))


def first_diff(t1, t2, tol=TOL):
    d = np.nonzero(np.abs(np.asarray(t1) - np.asarray(t2)) > tol * (1 + np.abs(np.asarray(t2))))[0]
    return int(d[0]) if len(d) else None


def monomials(labels, maxdeg=None, mindeg=0):
    labels = list(labels)
    maxdeg = len(labels) if maxdeg is None else maxdeg
    for d in range(mindeg, maxdeg + 1):
        for c in itertools.combinations(labels, d):
            yield c


def jkey(k):
    """JSON-able form of a key tuple and back (labels may be ints, strs, or tuples)."""
    return [list(l) if isinstance(l, tuple) else l for l in k]


def unjkey(k):
    return tuple(tuple(l) if isinstance(l, list) else l for l in k)


def jdict(D):
    return [[jkey(key_tuple(k)), v] for k, v in D.items()]


def unjdict(L):
    return {unjkey(k): v for k, v in L}
