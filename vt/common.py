"""Helpers shared by the check modules: deep snapshots, guarded calls, warning capture."""
import warnings


def _norm(v):
    if isinstance(v, float) and v == int(v) and abs(v) < 1e15:
        return int(v)
    return v


MODEL_STATE_ATTRS = ("_name", "_mapping", "_reverse_mapping", "_next_label", "_degree", "_variables", "_num_binary_variables",
                     "_ancilla", "_constraints")


def snap(obj, order=False, full=False):
    """Deep, hashable, order-insensitive snapshot of a model / dict / container argument.

    Two snapshots are equal iff the objects are equal as far as any library function can observe
    through public attributes and the private bookkeeping fields (dict insertion order is
    deliberately not part of it unless order=True).
    """
    if isinstance(obj, dict):
        items = [(snap(k), snap(v, full=full)) for k, v in obj.items()]
        if not order:
            items = sorted(items, key=repr)
        d = getattr(obj, "__dict__", None)
        attrs = ()
        if d:
            # the bookkeeping a model carries next to its terms.  Attributes outside this list (for instance a private memo
            # a future version might add) are not part of the observable state and are ignored, so that a correct cache is
            # never reported as "the model was mutated"; a stale one shows up through wrong results instead.
            attrs = tuple(sorted(((k, snap(v, full=full)) for k, v in d.items() if full or k in MODEL_STATE_ATTRS), key=repr))
        return (type(obj).__name__, tuple(items), attrs)
    if isinstance(obj, (list, tuple)):
        return (type(obj).__name__,) + tuple(snap(x, full=full) for x in obj)
    if isinstance(obj, (set, frozenset)):
        return ("set",) + tuple(sorted((snap(x) for x in obj), key=repr))
    if isinstance(obj, (int, float, str, bool, type(None))):
        return obj
    try:
        import numpy as np
        if isinstance(obj, np.ndarray):
            return ("ndarray", obj.shape, tuple(obj.ravel().tolist()))
        if isinstance(obj, np.generic):
            return obj.item()
    except Exception:  # noqa
        pass
    if type(obj).__module__.startswith("sympy"):
        return ("sympy", str(obj))
    d = getattr(obj, "__dict__", None)
    if d is not None:
        return (type(obj).__name__, tuple(sorted(((k, snap(v)) for k, v in d.items()), key=repr)))
    return repr(obj)


class Raised:
    def __init__(self, exc):
        self.exc = exc
        self.kind = type(exc).__name__

    def __repr__(self):
        return "Raised(%s: %s)" % (self.kind, self.exc)


def call(fn, *a, **kw):
    """Call library code; return its result or a Raised wrapper.  Warnings are recorded, not raised,
    and the once-per-location registry is bypassed (so the 2nd execution equals the 1st)."""
    with warnings.catch_warnings(record=True) as w:
        warnings.simplefilter("always")
        try:
            r = fn(*a, **kw)
        except Exception as e:  # noqa
            r = Raised(e)
    return r, [str(x.message) for x in w]


def short(x, n=300):
    s = repr(x)
    return s if len(s) <= n else s[:n] + "..."
