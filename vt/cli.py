import argparse
import os
import sys

from . import runner


def checks_available():
    d = os.path.join(os.path.dirname(__file__), "checks")
    return sorted(f[:-3].upper() for f in os.listdir(d) if f.startswith("c") and f[1:3].isdigit() and f.endswith(".py"))


def main(argv=None):
    argv = list(sys.argv[1:] if argv is None else argv)
    if not argv or argv[0] in ("-h", "--help"):
        print(__doc__ or "usage: vcheck <Cxx>|all|list|replay <file> [--tier quick|thorough]")
        return 2
    if argv[0] == "list":
        print("\n".join(checks_available()))
        return 0
    if argv[0] == "replay":
        ap = argparse.ArgumentParser()
        ap.add_argument("path")
        ap.add_argument("--json", action="store_true")
        a = ap.parse_args(argv[1:])
        return runner.do_replay(a.path, a.json)
    ap = argparse.ArgumentParser()
    ap.add_argument("check")
    ap.add_argument("--tier", default=os.environ.get("VERIF_TIER") or "quick", choices=["quick", "thorough"])
    ap.add_argument("--seed", type=int, default=int(os.environ.get("VERIF_SEED") or 0))
    a = ap.parse_args(argv)
    ids = checks_available() if a.check == "all" else [a.check.upper()]
    rc = 0
    if a.check == "all":
        # one process per check (each check chooses its own build of the C extension)
        import subprocess
        for pid in ids:
            r = subprocess.run([sys.executable, "-m", "vt.cli", pid, "--tier", a.tier, "--seed", str(a.seed)]).returncode
            if r == 1 or (r and rc == 0):
                rc = r if r in (1, 2) else 2
        return rc
    for pid in ids:
        if pid not in checks_available():
            print("unknown check %s" % pid)
            return 2
        try:
            r = runner.run_check(pid, a.tier, a.seed)
        except Exception as e:  # harness failure, never a violation
            import traceback
            traceback.print_exc()
            print("HARNESS-ERROR %s: %r" % (pid, e))
            r = 2
        if r == 1 or (r == 2 and rc == 0):
            rc = r
    return rc


if __name__ == "__main__":
    sys.exit(main())
