"""Driver process of C17: executes annealer calls on a sanitizer build and announces each call first.

usage: python -m vt.c17_driver <variant> <mode> <calls.json> <status-file> [start-index]
  mode single : each call once (real RNG of the asan build)
  mode explore: each call under all scripted tapes within d deviations (scripted_asan build)
  mode pairs  : calls.json holds [[A, B], ...]; run A then B, print B's result
Protocol on stdout:  "CALL <i>" before, "DONE <i> <json result digest>" after.  The status file always holds
the call index and (explore) the tape in flight, so that the parent can attribute a crash.
"""
import json
import os
import sys
import warnings


def build_model(qv, gen, spec):
    kind, name, cont, scheme = spec["kind"], spec["model"], spec["container"], spec["scheme"]
    from vt.checks.c17 import MODELS, HUGE
    MODELS = dict(MODELS, **HUGE)
    D0 = MODELS[name]["terms"]
    n = 1 + max((i for k in D0 for i in k), default=0)
    if name in HUGE:
        return gen.build(cont, dict(D0)), None
    L = gen.labels_for(scheme, max(n, 2))
    D = {tuple(L[i] for i in k): v for k, v in D0.items()}
    if MODELS[name].get("stale"):
        M = gen.cls(cont)()
        for k, v in D.items():
            M[k] = v
        for k, v in D.items():
            M[k] -= v
        return M, L
    return (dict(D) if cont == "dict" else gen.build(cont, D)), L


def make_call(spec):
    from vt import paths, gen
    qv = paths.import_qubovert()
    import qubovert.sim as sim
    M, L = build_model(qv, gen, spec)
    spin = spec["kind"] == "spin"
    kw = {}
    sch = spec["schedule"]
    if isinstance(sch, list):
        kw["schedule"] = sch
    else:
        kw["schedule"] = sch[0]
        kw["anneal_duration"] = sch[1]
    variables = sorted({l for k in (M if isinstance(M, dict) else {}) for l in k}, key=repr)
    if not isinstance(M, dict) or type(M) is not dict:
        variables = sorted(M.variables, key=repr)
        if type(M).__name__ in ("QUSOMatrix", "PUSOMatrix", "QUBOMatrix", "PUBOMatrix") and M.max_index is not None:
            variables = list(range(M.max_index + 1))
    if spec["init"] != "none":
        one, other = (1, -1) if spin else (0, 1)
        if spec["init"] == "ones":
            kw["initial_state"] = {v: one for v in variables}
        else:
            kw["initial_state"] = {v: (one if i % 2 == 0 else other) for i, v in enumerate(variables)}
    kw["in_order"] = spec["in_order"]
    kw["num_anneals"] = spec["num_anneals"]
    kw["seed"] = spec["seed"]
    f = getattr(sim, spec["fn"])

    repeat = spec.get("repeat", 1)

    def call():
        with warnings.catch_warnings():
            warnings.simplefilter("ignore")
            try:
                out = None
                for _ in range(repeat):
                    res = f(M, **kw)
                    out = [[sorted(r.state.items(), key=repr), r.value] for r in res]
                if repeat > 1 and not isinstance(M, dict.__class__):
                    # use the model afterwards: its keys, labels and bookkeeping must still be alive and intact
                    import gc
                    gc.collect()
                    touched = [sum(hash(l) for k in M for l in k), repr(sorted(M.items(), key=repr))]
                    if hasattr(M, "variables"):
                        touched.append(repr(sorted(M.variables, key=repr)))
                    if hasattr(M, "mapping"):
                        touched.append(repr(M.mapping))
                    out = [out, len("".join(map(str, touched)))]
                return out
            except Exception as e:  # noqa  (python-level errors are C11's subject; here only memory safety matters)
                return "raised %s" % type(e).__name__
    return call


def main():
    variant, mode, calls_file, status_file = sys.argv[1:5]
    start = int(sys.argv[5]) if len(sys.argv) > 5 else 0
    d = int(os.environ.get("C17_DEVIATIONS", "1"))
    sys.path.insert(0, os.path.dirname(os.path.dirname(os.path.abspath(__file__))))
    if mode == "explore":
        os.environ["VT_SCRIPTED_VARIANT"] = variant
    from vt import paths
    paths.import_qubovert(variant)
    with open(calls_file) as f:
        calls = json.load(f)
    fd = os.open(status_file, os.O_RDWR | os.O_CREAT, 0o644)

    def status(obj):
        b = json.dumps(obj).encode()
        os.pwrite(fd, b + b" " * max(0, 4000 - len(b)) + b"\n", 0)
    out = sys.stdout
    if mode == "explore":
        from vt import tape as tp, tapedfs
        tp.lib()
    for i in range(start, len(calls)):
        spec = calls[i]
        out.write("CALL %d\n" % i)
        out.flush()
        if mode == "single":
            status({"i": i})
            r = make_call(spec)()
            out.write("DONE %d %s\n" % (i, json.dumps(r, default=str)))
        elif mode == "pairs":
            status({"i": i, "which": 0})
            make_call(spec[0])()
            status({"i": i, "which": 1})
            r = make_call(spec[1])()
            out.write("DONE %d %s\n" % (i, json.dumps(r, default=str)))
        else:
            c = make_call(spec)
            runs = [0]
            orig_run = tp.run

            def visit(tape, res, log):
                runs[0] += 1

            def run_logged(tape, fn, clock=1000):
                status({"i": i, "tape": list(tape)})
                return orig_run(tape, fn, clock)
            tp.run = run_logged
            try:
                tapedfs.enumerate_deviations(c, d, visit, max_positions=int(os.environ.get("C17_MAXPOS", "40")))
            finally:
                tp.run = orig_run
            out.write("DONE %d %d\n" % (i, runs[0]))
        out.flush()
    out.write("END\n")
    out.flush()


if __name__ == "__main__":
    main()
