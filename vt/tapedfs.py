"""Engine C: stateless exploration of all answers of the scripted RNG.

`enumerate_all` explores the complete choice tree of one call: every random draw is a choice point
with a finite weighted menu; the weights of the leaves sum to 1, so summing leaf weights per outcome
yields the exact output distribution of the implementation as a function of uniform draws.

`enumerate_deviations` explores all tapes that differ from the all-default tape in at most d positions.

Replaying a prefix must reproduce the same requests at the same positions: divergence is a HarnessError
(it would mean nondeterminism the tape does not own).
"""
from . import tape as tp
from .runner import HarnessError

W32 = 1 << 32


def cuts_to_menu(cuts, alt=False):
    """cuts: sorted probabilities in (0,1).  Returns [(word, weight), ...]: two probes per interval
    (8 ulps inside its ends), each carrying half of the interval's measure.  alt=True: the probes sit at 0.382 and 0.786 of
    the interval instead (same intervals, same weights) -- an execution that is constant on every interval cannot tell."""
    import math
    edges = [0] + sorted({min(W32, max(0, int(math.ceil(p * W32)))) for p in cuts}) + [W32]
    menu = []
    for lo, hi in zip(edges[:-1], edges[1:]):
        if hi <= lo:
            continue
        width = hi - lo
        if width <= 32:
            menu.append((lo + width // 2, width / W32))
        elif alt:
            menu.append((lo + int(width * 0.382), width / W32 / 2))
            menu.append((lo + int(width * 0.786), width / W32 / 2))
        else:
            menu.append((lo + 8, width / W32 / 2))
            menu.append((hi - 1 - 8, width / W32 / 2))
    return menu


class TooManyRuns(HarnessError):
    pass


class ReplayDivergence(HarnessError):
    """The same tape prefix produced a different request sequence: the execution depends on something other than the random
    words (for the annealers: identical calls with identical generator output differ)."""


def enumerate_all(fn, word_menu, outcome, max_runs=5_000_000):
    """Full enumeration.  fn(): the call under test (reads the scripted RNG).  word_menu(position, log, prefix) -> [(word, weight)]
    for a random-word request; bounded requests get all values with weight 1/bound.
    outcome(result) -> hashable.  Returns (dict outcome -> probability, runs, leaves, choice_points)."""
    dist = {}
    runs = leaves = cps = 0
    # stack entries: (prefix list, weight, expected_log_prefix)
    stack = [([], 1.0, [])]
    while stack:
        prefix, w, expect = stack.pop()
        res, log = tp.run(prefix, fn)
        runs += 1
        if runs > max_runs:
            raise TooManyRuns("enumerate_all exceeded %d runs" % max_runs)
        if log[:len(expect)] != expect:
            raise ReplayDivergence("replaying tape prefix %r changed the request log: expected %r, got %r" % (prefix, expect, log[:len(expect)]))
        if len(log) < len(prefix):
            raise ReplayDivergence("tape prefix %r longer than the number of requests %d" % (prefix, len(log)))
        if len(log) == len(prefix):
            o = outcome(res)
            dist[o] = dist.get(o, 0.0) + w
            leaves += 1
            continue
        i = len(prefix)
        kind, bound = log[i]
        cps += 1
        if kind == 1:
            alts = [(v, 1.0 / bound) for v in range(bound)]
        else:
            alts = word_menu(i, log, prefix)
        exp2 = log[:i + 1]
        for val, ww in alts:
            stack.append((prefix + [val], w * ww, exp2))
    return dist, runs, leaves, cps


WORD_EXTREMES = (0x7FFFFFFF, 0x80000000, 0xFFFFFFFF)


def enumerate_deviations(fn, d, visit, word_alts=WORD_EXTREMES, max_positions=None):
    """All tapes with at most d deviations from the default answer 0.  visit(tape, result, log) is called for
    every execution.  Returns number of executions."""
    runs = 0
    # a tape is represented by its deviations {position: value}
    stack = [((), None)]
    while stack:
        devs, expect = stack.pop()
        L = (max(p for p, _ in devs) + 1) if devs else 0
        t = [0] * L
        for p, v in devs:
            t[p] = v
        res, log = tp.run(t, fn)
        runs += 1
        visit(t, res, log)      # the result is judged first: a divergence below is usually the consequence of what it shows
        if expect is not None and log[:len(expect)] != expect:
            raise ReplayDivergence("replaying tape %r changed the request log prefix" % (t,))
        if len(devs) >= d:
            continue
        start = L
        end = len(log) if max_positions is None else min(len(log), max_positions)
        for i in range(start, end):
            kind, bound = log[i]
            if kind != 1:
                alts = list(word_alts)
            elif bound <= 9:
                alts = list(range(1, bound))
            else:
                # large bounds (hundreds of sites): the ends and the middle of the range instead of every value
                alts = sorted({1, 2, bound // 2, bound - 2, bound - 1})
            for a in alts:
                stack.append((devs + ((i, a),), log[:i + 1]))
    return runs
