/* The vendored generator as the library seeds it (REPO's pcg_basic.c + random.c, unmodified), for ALL seeds lo..hi-1:
 * the first NW words of rand_init(seed) are compared with an independent implementation of the published PCG32
 * (XSH-RR 64/32, seeding: state = 0, inc = 2*seq+1, step, state += seed, step; seq = 54 as random.c passes it), and
 * the top four bits of every word position are tallied over the seeds.
 *   pcgseam lo hi
 */
#include <stdint.h>
#include <stdio.h>
#include <stdlib.h>
#include "random.h"

#define NW 4

typedef struct { uint64_t state, inc; } ref_t;

static uint32_t ref_next(ref_t *r) {
    uint64_t old = r->state;
    r->state = old * 6364136223846793005ULL + r->inc;
    uint32_t xorshifted = (uint32_t)(((old >> 18u) ^ old) >> 27u);
    uint32_t rot = (uint32_t)(old >> 59u);
    return (xorshifted >> rot) | (xorshifted << ((-rot) & 31));
}

static void ref_seed(ref_t *r, uint64_t initstate, uint64_t initseq) {
    r->state = 0U;
    r->inc = (initseq << 1u) | 1u;
    ref_next(r);
    r->state += initstate;
    ref_next(r);
}

int main(int argc, char **argv) {
    if (argc < 3) return 2;
    uint64_t lo = strtoull(argv[1], 0, 10), hi = strtoull(argv[2], 0, 10);
    static uint64_t buckets[NW][16];
    uint64_t mismatches = 0; long long first_seed = -1; int first_pos = -1; uint32_t first_got = 0, first_want = 0;
    for (uint64_t s = lo; s < hi; s++) {
        rng_t rng = rand_init((int)s);
        ref_t ref; ref_seed(&ref, (uint64_t)(unsigned)s, 54u);
        for (int i = 0; i < NW; i++) {
            uint32_t w = pcg32_random_r(&rng), want = ref_next(&ref);
            buckets[i][w >> 28]++;
            if (w != want) { if (!mismatches) { first_seed = (long long)s; first_pos = i; first_got = w; first_want = want; } mismatches++; }
        }
    }
    printf("{\"lo\":%llu,\"hi\":%llu,\"words\":%d,\"mismatches\":%llu,\"first_seed\":%lld,\"first_pos\":%d,\"first_got\":%u,\"first_want\":%u,\"buckets\":[",
           (unsigned long long)lo, (unsigned long long)hi, NW, (unsigned long long)mismatches, first_seed, first_pos, first_got, first_want);
    for (int i = 0; i < NW; i++) {
        printf("%s[", i ? "," : "");
        for (int b = 0; b < 16; b++) printf("%s%llu", b ? "," : "", (unsigned long long)buckets[i][b]);
        printf("]");
    }
    printf("]}\n");
    return 0;
}
