/* Exhaustive enumeration of the library's RNG seam (qubovert/sim/src/random.c) over ALL 2^32 generator words.
 *
 * Linked against REPO's random.c; the vendored generator is replaced by the definitions below:
 *   pcg32_random_r      returns the enumerated word W on its first call of an evaluation (later calls, only reached by
 *                       rejection loops, get fixed words that no textbook rejection zone contains)
 *   pcg32_boundedrand_r the textbook PCG algorithm on top of pcg32_random_r (rejection zone < bound words out of 2^32)
 *
 *   randseam int N lo hi     law of rand_int(rng, N) over the words lo..hi-1
 *   randseam double lo hi    rand_double(rng) against W * 2^-32 over the words lo..hi-1
 * One JSON object on stdout.
 */
#include <stdint.h>
#include <stdio.h>
#include <stdlib.h>
#include <string.h>
#include <math.h>
#include "random.h"

static uint32_t W;
static int ncalls;
static int via_bounded;
static uint32_t last_bound;

uint32_t pcg32_random_r(pcg32_random_t *rng) {
    (void)rng;
    ncalls++;
    if (ncalls == 1) return W;
    return (W ^ 0x80000000u) | 0x40000000u;
}

uint32_t pcg32_boundedrand_r(pcg32_random_t *rng, uint32_t bound) {
    via_bounded = 1;
    last_bound = bound;
    uint32_t threshold = -bound % bound;
    for (;;) {
        uint32_t r = pcg32_random_r(rng);
        if (r >= threshold) return r % bound;
    }
}

void pcg32_srandom_r(pcg32_random_t *rng, uint64_t initstate, uint64_t initseq) {
    rng->state = initstate;
    rng->inc = (initseq << 1u) | 1u;
}

#define MAXN 64

int main(int argc, char **argv) {
    if (argc < 4) return 2;
    rng_t rng;
    memset(&rng, 0, sizeof rng);
    if (!strcmp(argv[1], "int")) {
        int N = atoi(argv[2]);
        uint64_t lo = strtoull(argv[3], 0, 10), hi = strtoull(argv[4], 0, 10);
        if (N < 1 || N > MAXN) return 2;
        static uint64_t counts[MAXN];
        uint64_t oor = 0, multi = 0, bounded = 0, badbound = 0;
        long long first_oor_word = -1; long first_oor_val = 0;
        for (uint64_t w = lo; w < hi; w++) {
            W = (uint32_t)w; ncalls = 0; via_bounded = 0;
            int r = rand_int(&rng, N);
            if (r < 0 || r >= N) { if (!oor) { first_oor_word = (long long)w; first_oor_val = r; } oor++; }
            else counts[r]++;
            if (ncalls > 1) multi++;
            if (via_bounded) { bounded++; if (last_bound != (uint32_t)N) badbound++; }
        }
        printf("{\"mode\":\"int\",\"N\":%d,\"lo\":%llu,\"hi\":%llu,\"counts\":[", N, (unsigned long long)lo, (unsigned long long)hi);
        for (int i = 0; i < N; i++) printf("%s%llu", i ? "," : "", (unsigned long long)counts[i]);
        printf("],\"out_of_range\":%llu,\"first_oor_word\":%lld,\"first_oor_value\":%ld,\"multi_word\":%llu,\"via_bounded\":%llu,\"bad_bound\":%llu}\n",
               (unsigned long long)oor, first_oor_word, first_oor_val, (unsigned long long)multi, (unsigned long long)bounded, (unsigned long long)badbound);
        return 0;
    }
    if (!strcmp(argv[1], "double")) {
        uint64_t lo = strtoull(argv[2], 0, 10), hi = strtoull(argv[3], 0, 10);
        uint64_t nonmono = 0, outside = 0, multi = 0;
        double maxdev = 0, prev = -1, mn = 1e300, mx = -1e300;
        long long worst = -1;
        for (uint64_t w = lo; w < hi; w++) {
            W = (uint32_t)w; ncalls = 0; via_bounded = 0;
            double d = rand_double(&rng);
            double dev = fabs(d - ldexp((double)w, -32));
            if (!(dev <= maxdev)) { maxdev = dev; worst = (long long)w; }
            if (d < prev) nonmono++;
            prev = d;
            if (!(d >= 0.0 && d < 1.0)) outside++;
            if (d < mn) mn = d;
            if (d > mx) mx = d;
            if (ncalls != 1) multi++;
        }
        printf("{\"mode\":\"double\",\"lo\":%llu,\"hi\":%llu,\"max_abs_dev\":%.17g,\"worst_word\":%lld,\"non_monotone\":%llu,\"outside_unit\":%llu,"
               "\"not_one_word\":%llu,\"min\":%.17g,\"max\":%.17g}\n",
               (unsigned long long)lo, (unsigned long long)hi, maxdev, worst, (unsigned long long)nonmono, (unsigned long long)outside,
               (unsigned long long)multi, mn, mx);
        return 0;
    }
    return 2;
}
