/* Scripted replacement of the vendored pcg_basic.c (link-time; no source change).
 *
 * Every random draw of the kernels goes through pcg32_random_r (random word,
 * "kind 0") or pcg32_boundedrand_r (bounded integer, "kind 1").  Here both read the
 * next value from a tape the explorer owns.  Past the end of the tape the answer is
 * the default 0.  Every request (answered from the tape or not) is logged with its
 * kind and bound, so the explorer knows every choice point of the execution and can
 * check that replaying a prefix reproduces the same requests at the same positions.
 *
 * time() is also defined here (the library is linked -Bsymbolic, so random.c's
 * call binds to this one): the clock is scripted too.
 */
#include <stdint.h>
#include <time.h>
#include "pcg_basic.h"

#define VT_MAXLOG 4096

uint32_t vt_tape[VT_MAXLOG];
int vt_tape_len = 0;
int vt_pos = 0;                 /* number of requests so far */
int vt_log_kind[VT_MAXLOG];
uint32_t vt_log_bound[VT_MAXLOG];
int vt_overflow = 0;

uint64_t vt_seed_state[64];
uint64_t vt_seed_seq[64];
int vt_seed_calls = 0;
int vt_seq_is_addr = 0;         /* set by the explorer: do not record initseq (it is an address) */

long vt_clock = 1000;
int vt_time_calls = 0;

void vt_reset(void) {
    vt_pos = 0; vt_overflow = 0; vt_seed_calls = 0; vt_time_calls = 0;
}

static uint32_t vt_next(int kind, uint32_t bound) {
    uint32_t v = 0;
    if (vt_pos < vt_tape_len && vt_pos < VT_MAXLOG) v = vt_tape[vt_pos];
    if (vt_pos < VT_MAXLOG) {
        vt_log_kind[vt_pos] = kind;
        vt_log_bound[vt_pos] = bound;
    } else {
        vt_overflow = 1;
    }
    vt_pos++;
    return v;
}

void pcg32_srandom_r(pcg32_random_t* rng, uint64_t initstate, uint64_t initseq) {
    if (vt_seed_calls < 64) {
        vt_seed_state[vt_seed_calls] = initstate;
        vt_seed_seq[vt_seed_calls] = initseq;
    }
    vt_seed_calls++;
    rng->state = initstate;
    rng->inc = (initseq << 1u) | 1u;
}

uint32_t pcg32_random_r(pcg32_random_t* rng) {
    (void)rng;
    return vt_next(0, 0);
}

uint32_t pcg32_boundedrand_r(pcg32_random_t* rng, uint32_t bound) {
    (void)rng;
    uint32_t v = vt_next(1, bound);
    if (bound == 0) return 0;   /* never requested by valid calls; avoid UB in the shim itself */
    return v % bound;
}

time_t time(time_t *t) {
    vt_time_calls++;
    if (t) *t = (time_t)vt_clock;
    return (time_t)vt_clock;
}
