"""Deterministic enumerators: label schemes, containers, small polynomials.

Everything is enumerated in a fixed order, simplest first, so that the first counterexample is
also the smallest.  Polynomials are generated over index labels 0..n-1 and relabelled through a
label scheme when the real object is built.
"""
import itertools

from . import paths

# ----------------------------------------------------------------------------- labels (DESIGN 2.3)

SCHEMES = {
    "int": lambda n: list(range(n)),
    "gap": lambda n: [7, 3, 9, 1, 12, 5][:n],
    "neg": lambda n: [-2, 5, -7, 0, 3, -1][:n],
    "str": lambda n: ["a", "b", "c", "d", "e", "f"][:n],
    "mixed": lambda n: [0, "b", 2, "d", 4, "f"][:n],
    "tuple": lambda n: [("q", i) for i in range(n)],
    "bool": lambda n: [True, False][:n],                       # the python constants are hashable, hence labels like any other (n <= 2)
    "rstr": lambda n: ["z", "y", "x", "w", "v", "u"][:n],     # descending strings: insertion order != sorted order
}
MATRIX_SCHEMES = ("int", "gap")
LABELLED_SCHEMES = ("int", "gap", "neg", "str", "mixed", "tuple", "rstr")


def relabel(D, scheme, n=None):
    """Relabel a dict over indices by a scheme name (or an explicit list of labels)."""
    if n is None:
        n = 1 + max((i for k in D for i in k), default=-1)
    L = SCHEMES[scheme](n) if isinstance(scheme, str) else list(scheme)
    return {tuple(L[i] for i in k): v for k, v in D.items()}


def labels_for(scheme, n):
    return SCHEMES[scheme](n)


# ----------------------------------------------------------------------------- containers (DESIGN 2.4)

BOOL_CONTAINERS = ("dict", "QUBO", "PUBO", "PCBO", "QUBOMatrix", "PUBOMatrix")
SPIN_CONTAINERS = ("dict", "QUSO", "PUSO", "PCSO", "QUSOMatrix", "PUSOMatrix")
MATRIX = ("QUBOMatrix", "PUBOMatrix", "QUSOMatrix", "PUSOMatrix")
DEG2 = ("QUBO", "QUSO", "QUBOMatrix", "QUSOMatrix")
SPIN_TYPES = ("QUSO", "PUSO", "PCSO", "QUSOMatrix", "PUSOMatrix")


def cls(name):
    qv = paths.import_qubovert()
    if name == "dict":
        return dict
    return getattr(qv, name, None) or getattr(qv.utils, name)


def build(container, D):
    return cls(container)(D)


def schemes_for(container):
    return MATRIX_SCHEMES if container in MATRIX else LABELLED_SCHEMES


# ----------------------------------------------------------------------------- polynomials

def monomials(n, mindeg=1, maxdeg=None):
    maxdeg = n if maxdeg is None else maxdeg
    out = []
    for d in range(mindeg, maxdeg + 1):
        out.extend(itertools.combinations(range(n), d))
    return out


def polys(n, maxterms, coefs, mindeg=1, maxdeg=None, offsets=(0,), minterms=0, need_deg=None):
    """All polynomials over indices 0..n-1 with between minterms and maxterms non-constant terms.

    Yields dicts {key: coef}; the offset (if non-zero) is stored under ().  `need_deg`: at least
    one term of degree >= need_deg.
    """
    mons = monomials(n, mindeg, maxdeg)
    for t in range(minterms, maxterms + 1):
        for ks in itertools.combinations(mons, t):
            if need_deg and not any(len(k) >= need_deg for k in ks):
                continue
            for cs in itertools.product(coefs, repeat=t):
                for off in offsets:
                    D = dict(zip(ks, cs))
                    if off:
                        D[()] = off
                    yield D


def uses_all(D, n):
    s = set()
    for k in D:
        s.update(k)
    return len(s) == n


def permute_mapping(M, how):
    """Give a labelled model a user-chosen enumeration through the documented set_mapping / set_reverse_mapping:
    the cyclic shift i -> (i+1) mod n of its current one (a 3-cycle for n = 3: not its own inverse)."""
    mp = M.mapping
    n = len(mp)
    if n < 2:
        return M
    new = {l: (i + 1) % n for l, i in mp.items()}
    if how == "setmap":
        M.set_mapping(new)
    else:
        M.set_reverse_mapping({i: l for l, i in new.items()})
    return M
