"""Shared machinery of C02 (PCBO) and C03 (PCSO): comparison constraints as exact penalties."""
import itertools

import numpy as np

from . import gen, paths
from .common import call, Raised, short, snap
from .ref import poly as rp
from .runner import explore_cases, Stats

COEFS = (-2, -1, 1, 2)
OFFSETS = (0, -1, 1, -2, 2)
LAMS = (1, 2.5, 0.5)
RELS = ("eq", "ne", "lt", "le", "gt", "ge")
BOUNDS = ("omitted", "exact", "none-hi", "lo-none", "loose1", "loosehalf")
N = 3
MAX_ANC = 11


def holds(rel, t):
    return {"eq": t == 0, "ne": t != 0, "lt": t < 0, "le": t <= 0, "gt": t > 0, "ge": t >= 0}[rel]


def bounds_arg(kind, lo, hi):
    return {"omitted": None, "exact": (lo, hi), "none-hi": (None, hi), "lo-none": (lo, None),
            "loose1": (lo - 1, hi + 1), "loosehalf": (lo - 0.5, hi + 0.5)}[kind]


def gen_cases(tier, spin):
    maxterms = (2 if tier == "quick" else 3) if not spin else (1 if tier == "quick" else 2)
    menu = SPIN_MENU if spin else MENU

    def it():
        for D in gen.polys(N, maxterms, COEFS, offsets=OFFSETS):
            yield {"part": "single", "poly": rp.jdict(D), "spin": spin}
        # wide, asymmetric value ranges (binary slack of 4-5 bits, sign+magnitude ancillas of `!=`): two variables
        wide = (-10, -9, -7, -5, -3, 3, 5, 7, 9, 10) if not spin else (-5, -3, 3, 5)
        unit = (-1, 1)
        for D in gen.polys(2, 2, wide + unit, offsets=(0, 1, -1), minterms=1):
            if not any(abs(v) > 2 for k, v in D.items() if k):
                continue
            if tier == "quick" and sum(1 for k in D if k) == 2 and not any(abs(v) == 1 for k, v in D.items() if k):
                continue     # quick: one wide coefficient next to a unit one (the asymmetric ranges); thorough: all pairs
            yield {"part": "single", "poly": rp.jdict(D), "spin": spin, "wide": True}
        if spin:
            # images of the boolean special-form neighbourhood: PCSO converts to boolean variables and reuses the PCBO code, so the
            # spin polynomials that can reach a boolean special form are exactly H(z) = m * B((1 - z) / 2) for small boolean B
            # (m makes the coefficients integers).  Every boolean B with <= 2 terms (thorough: <= 3) and unit coefficients.
            seen = set()
            for B in gen.polys(N, 2 if tier == "quick" else 3, (-1, 1), offsets=(0, 1, -1), minterms=1):
                deg = max(len(k) for k in B)
                m = 2 ** deg
                t = rp.tt(B, list(range(N)), False) * m
                Dz = {k: int(round(v)) for k, v in rp.canonical(t, list(range(N)), True).items()}
                key = tuple(sorted(Dz.items()))
                if key in seen or not any(k for k in Dz):
                    continue
                seen.add(key)
                yield {"part": "single", "poly": rp.jdict(Dz), "spin": spin, "wide": True, "image": True}
        if spin and tier == "quick":
            # two-term polynomials with unit coefficients only (the full two-term space is the thorough tier)
            for D in gen.polys(N, 2, (-1, 1), offsets=(0, 1), minterms=2):
                yield {"part": "single", "poly": rp.jdict(D), "spin": spin}
        L = 2 if tier == "quick" else 3
        if spin and tier != "quick":
            L = 2
        for seq in itertools.product(range(len(menu)), repeat=L):
            yield {"part": "seq", "seq": list(seq), "spin": spin}
        if tier != "quick" and not spin:
            for seq in itertools.product(range(len(menu)), repeat=2):
                yield {"part": "seq", "seq": list(seq), "spin": spin}
    return it


def add(H, rel, P, lam, log_trick, bounds):
    meth = getattr(H, "add_constraint_%s_zero" % rel)
    kw = {"lam": lam}
    if bounds is not None:
        kw["bounds"] = bounds
    if rel != "eq":
        kw["log_trick"] = log_trick
    return call(meth, P, **kw)


def is_anc(l):
    return isinstance(l, str) and l.startswith("__a")


def analyse(H, xlabels, extra_ok=()):
    """Split H's variables into model variables and ancillas; returns (ancillas sorted, foreign)."""
    used = {l for k in H for l in k}
    anc = sorted((l for l in used if is_anc(l)), key=lambda s: int(s[3:]))
    foreign = [l for l in used if not is_anc(l) and l not in xlabels]
    return anc, foreign


def min_over_anc(F, n):
    return F.reshape(-1, 1 << n).min(axis=0)


def check_single(case, st):
    qv = paths.import_qubovert()
    spin = bool(case.get("spin"))
    pid = "C03" if spin else "C02"
    Model = qv.PCSO if spin else qv.PCBO
    Poly = qv.PUSO if spin else qv.PUBO
    var = qv.spin_var if spin else qv.boolean_var
    anc0 = 1 if spin else 0
    D = rp.unjdict(case["poly"])
    nterms = len(D) - (() in D)
    if nterms >= 1:
        st.nontrivial += 1
    for scheme in ("str",) if nterms > 1 else ("str", "gap", "tuple"):
        labels = gen.labels_for(scheme, N)
        DL = gen.relabel(D, scheme, N)
        tP = rp.tt(DL, labels, spin)
        lo, hi = float(tP.min()), float(tP.max())
        for rel in RELS:
            want = holds(rel, tP)
            for lt in ((True, False) if rel != "eq" else (True,)):
                for bk in BOUNDS:
                    for lam in ((LAMS if spin else LAMS + (2,)) if not case.get("wide") else LAMS[:1]):
                        if case.get("wide") and bk not in ("omitted", "exact", "loosehalf"):
                            continue
                        reduced = (bk == "omitted" and lam == 1)
                        fl = [("dict", lambda: dict(DL))]
                        if nterms == 2 and bk == "omitted":
                            # same polynomial, terms given in the opposite order (the special-form recognisers index the terms)
                            fl += [("dict-rev", lambda: dict(reversed(list(DL.items()))))]
                        if reduced:
                            fl += [("poly", lambda: Poly(DL)),
                                   ("expr", lambda: sum((v * _prod([var(l) for l in k]) for k, v in DL.items()), Model()))]
                        for fname, mk in fl:
                            P = mk()
                            before = snap(P)
                            H = Model()
                            st.transitions += 1
                            st.traces += 1
                            r, warns = add(H, rel, P, lam, lt, bounds_arg(bk, lo, hi))

                            def v(kind, msg):
                                st.violation("%s|%s|log_trick=%s|bounds=%s" % (rel, kind, lt, bk),
                                             dict(case, rel=rel, log_trick=lt, bounds=bk, lam=lam, form=fname, scheme=scheme),
                                             "%s %s().add_constraint_%s_zero(%s, lam=%r, log_trick=%s, bounds=%r): %s" % (pid, Model.__name__, rel, short(DL, 200), lam, lt, bounds_arg(bk, lo, hi), msg))
                            if isinstance(r, Raised):
                                v("raises-" + r.kind, "raised %r" % r.exc)
                                continue
                            if snap(P) != before:
                                v("argument-mutated", "the polynomial passed in changed to %s" % short(P))
                            anc, foreign = analyse(H, labels)
                            if foreign:
                                v("foreign-variable", "new non-ancilla variables %r" % foreign)
                                continue
                            if len(anc) > MAX_ANC:
                                st.skipped["more than %d ancillas" % MAX_ANC] += 1
                                continue
                            if H.num_ancillas < len(anc) or any(int(a[3:]) >= H.num_ancillas for a in anc):
                                v("ancilla-count", "ancillas %r present but num_ancillas = %r" % (anc, H.num_ancillas))
                            F = rp.tt(H, labels + anc, spin)
                            if F.min() < -1e-9:
                                a = int(F.argmin())
                                v("negative", "penalty is %r at %r" % (F[a], rp.assignment(a, labels + anc, spin)))
                                continue
                            unsat_warned = any("cannot be satisfied" in w for w in warns)
                            st.outcomes["%s anc=%d%s" % (rel, len(anc), " warned-unsat" if unsat_warned else "")] += 1
                            if not unsat_warned:
                                m = min_over_anc(F, N)
                                bad0 = np.nonzero(want & (np.abs(m) > 1e-9))[0]
                                bad1 = np.nonzero(~want & (m < lam - 1e-9))[0]
                                if len(bad0):
                                    a = int(bad0[0])
                                    v("nonzero-on-satisfying", "P(%r) = %r satisfies the relation but min over ancillas of the penalty is %r" % (rp.assignment(a, labels, spin), tP[a], m[a]))
                                if len(bad1):
                                    a = int(bad1[0])
                                    v("below-lam-on-violating", "P(%r) = %r violates the relation but the penalty can be %r < lam" % (rp.assignment(a, labels, spin), tP[a], m[a]))
                            for a in range(1 << N):
                                x = rp.assignment(a, labels, spin)
                                rv, _w = call(H.is_solution_valid, x)
                                x2 = dict(x)
                                x2.update({l: anc0 for l in anc})
                                rv2, _w = call(H.is_solution_valid, x2)
                                if isinstance(rv, Raised) or isinstance(rv2, Raised) or bool(rv) != bool(want[a]) or bool(rv2) != bool(want[a]):
                                    v("is_solution_valid", "is_solution_valid(%r) = %r / with ancilla keys %r; P = %r so the relation is %s" % (x, rv, rv2, tP[a], bool(want[a])))
                                    break


def _prod(xs):
    out = 1
    for x in xs:
        out = out * x
    return out


# ------------------------------------------------------------------ sequences

# (relation, polynomial over indices, log_trick)
MENU = [
    ("le", {(0,): 1, (1,): 1, (2,): 1, (): -1}, True),       # sum <= 1 special form
    ("le", {(0,): 1, (1,): -1}, True),                        # x <= y special form
    ("le", {(0,): -1, (1,): -1, (): 1}, True),                # OR special form
    ("eq", {(2,): 1, (0, 1): -1}, True),                      # z == x y special form
    ("le", {(0,): 1, (1,): 1, (2,): 1, (): -2}, False),       # min_val == 0, unary ancillas
    ("le", {(0,): 1, (1,): -2, (2,): 1}, False),              # unary slack
    ("le", {(0,): 2, (1,): 1, (2,): -3, (): -1}, True),       # binary slack
    ("ne", {(0,): 1, (1,): 1, (2,): -1}, True),               # != with sign ancilla
    ("le", {(0,): 1, (): -2}, True),                          # always satisfied
    ("le", {(0,): 1, (): 1}, True),                           # never satisfiable
    ("lt", {(0,): 1, (1,): 1, (): -2}, True),
    ("ge", {(0,): 1, (1,): 1, (2,): 1, (): -1}, True),
    ("gt", {(0, 1): 2, (2,): -1}, False),
    ("eq", {(0,): 1, (1,): 1, (2,): -1, (): -1}, True),       # general squared form
    ("ne", {(0,): -1, (1,): -2}, True),                       # != with maximum exactly 0 (implemented through <)
    ("ne", {(0,): 1, (2,): 2}, True),                         # != with minimum exactly 0 (implemented through >)
    ("ne", {(1,): 1, (2,): -3}, True),                        # != whose range reaches much further below 0 than above
    ("eq", {(2,): 2, (0, 1): -1}, True),                      # near miss of the z == x y form: opposite signs, different magnitudes
    ("eq", {(2,): 1, (0, 1): 1}, True),                       # near miss of the z == x y form: equal coefficients
    ("gt", {(2,): 1, (): 1}, True),                           # decided by its bounds alone: always satisfied (adds nothing, records itself)
    ("lt", {(1,): 1, (): 1}, True),                           # decided by its bounds alone: never satisfiable
]
SPIN_MENU = [
    ("le", {(0,): 1, (1,): 1, (2,): 1, (): -1}, True),
    ("le", {(0,): 1, (1,): 1, (2,): 1, (): -1}, False),
    ("le", {(0,): 1, (1,): -1}, True),
    ("eq", {(0, 1): 1, (2,): -1}, True),
    ("ne", {(0,): 1, (1,): 1}, True),
    ("ne", {(0,): 1, (1,): 1, (2,): 1, (): 1}, False),
    ("lt", {(0,): 1, (1,): 1, (2,): 1}, True),
    ("ge", {(0, 1): 1, (2,): 1, (): -1}, True),
    ("gt", {(0,): 1, (1, 2): -1}, False),
    ("eq", {(0,): 1, (1,): 1, (2,): 1, (): -1}, True),
    ("le", {(0,): 1, (): -2}, True),                          # always satisfied
    ("le", {(0,): 1, (): 2}, True),                           # never satisfiable
    ("eq", {(2,): -1, (0,): 1, (1,): 1, (0, 1): -1}, True),   # boolean image 2 b_z - 4 b_x b_y: near miss of the z == x y form
    ("eq", {(): 3, (2,): -2, (0,): -1, (1,): -1, (0, 1): 1}, True),   # boolean image 4 (b_z + b_x b_y)
    ("gt", {(2,): 1, (): 2}, True),                           # decided by its bounds alone: always satisfied
]
OBJECTIVE = {(0,): 1, (1, 2): -2, (): 0.5}
MAX_SEQ_VARS = 16


def check_seq(case, st):
    qv = paths.import_qubovert()
    spin = bool(case.get("spin"))
    pid = "C03" if spin else "C02"
    Model = qv.PCSO if spin else qv.PCBO
    MENU = SPIN_MENU if spin else globals()["MENU"]
    labels = gen.labels_for("str", N)
    obj = gen.relabel(OBJECTIVE, "str", N)
    H = Model(obj)
    parts = []
    seen_anc = []
    st.nontrivial += 1

    def v(kind, msg, i=None):
        st.violation("seq|%s|%s" % (kind, MENU[case["seq"][i]][0] if i is not None else "-"), case,
                     "%s sequence %s: %s" % (pid, [(MENU[j][0], MENU[j][1], MENU[j][2]) for j in case["seq"]], msg))
    for i, j in enumerate(case["seq"]):
        rel, D, lt = MENU[j]
        P = gen.relabel(D, "str", N)
        lam = 1 + i        # different weights so that mixing up penalties is visible
        # the same call on a fresh model
        H1 = Model()
        r1, _w = add(H1, rel, dict(P), lam, lt, None)
        before_vars = {l for k in H for l in k}
        r, _w = add(H, rel, dict(P), lam, lt, None)
        st.transitions += 2
        st.traces += 2
        if isinstance(r, Raised) or isinstance(r1, Raised):
            v("raises", "step %d raised %r / %r" % (i, r, r1), i)
            return
        anc1, _f = analyse(H1, labels)
        anc_now, foreign = analyse(H, labels)
        if foreign:
            v("foreign-variable", "step %d introduced %r" % (i, foreign), i)
            return
        new = [a for a in anc_now if a not in before_vars and a not in seen_anc]
        if len(new) != len(anc1):
            v("ancilla-reuse", "step %d introduces %d new ancilla names %r, but the same constraint needs %d ancillas on a fresh model (names so far %r)"
              % (i, len(new), new, len(anc1), seen_anc), i)
            return
        seen_anc += new
        parts.append((H1, anc1))
    # the recorded constraints are exactly the ones added, in order, under their own relation
    want_rec = {}
    for j in case["seq"]:
        want_rec.setdefault(MENU[j][0], []).append(gen.relabel(MENU[j][1], "str", N))
    got_rec, _w = call(lambda: H.constraints)
    if isinstance(got_rec, Raised) or {k: [dict(p) for p in v] for k, v in got_rec.items()} != want_rec:
        v("recorded-constraints", "constraints = %s, expected %s" % (short(got_rec, 300), short(want_rec, 300)))
    if H.num_ancillas != len(seen_anc):
        v("ancilla-count", "num_ancillas = %r but %d ancillas were introduced (%r)" % (H.num_ancillas, len(seen_anc), seen_anc))
    if N + len(seen_anc) > MAX_SEQ_VARS:
        st.skipped["sequence needs more than %d variables" % MAX_SEQ_VARS] += 1
        return
    all_labels = labels + seen_anc
    Ftot = rp.tt(H, all_labels, spin) - rp.tt(obj, all_labels, spin)
    mtot = min_over_anc(Ftot, N)
    msum = np.zeros(1 << N)
    for H1, anc1 in parts:
        msum += min_over_anc(rp.tt(H1, labels + anc1, spin), N)
    if not rp.tables_equal(mtot, msum):
        a = rp.first_diff(mtot, msum)
        v("not-additive", "at %r the combined penalty minimised over ancillas is %r, the sum of the individual penalties is %r"
          % (rp.assignment(a, labels, spin), mtot[a], msum[a]))
    # is_solution_valid on the combined model
    for a in range(1 << N):
        x = rp.assignment(a, labels, spin)
        want = all(bool(holds(MENU[j][0], rp.tt(gen.relabel(MENU[j][1], "str", N), labels, spin))[a]) for j in case["seq"])
        rv, _w = call(H.is_solution_valid, x)
        if isinstance(rv, Raised) or bool(rv) != want:
            v("is_solution_valid", "is_solution_valid(%r) = %r, conjunction of the recorded constraints is %s" % (x, rv, want))
            break
    st.outcomes["seq anc=%d" % len(seen_anc)] += 1


def check(case, st):
    if case["part"] == "single":
        check_single(case, st)
    else:
        check_seq(case, st)


def run(ctx, spin):
    menu = SPIN_MENU if spin else MENU
    ctx.bounds = {"n": N, "coefs": COEFS, "offsets": OFFSETS, "relations": RELS, "bounds": BOUNDS, "lams": LAMS if spin else LAMS + (2,),
                  "max_terms": ((2 if ctx.quick else 3) if not spin else ("1, plus 2 with unit coefficients" if ctx.quick else 2)),
                  "wide_slice": "two variables, <=2 terms with a coefficient from %s (quick: paired with a unit coefficient), offsets {0,1,-1}, bounds omitted/exact/loose-half, lam 1" % ((-10, -9, -7, -5, -3, 3, 5, 7, 9, 10) if not spin else (-5, -3, 3, 5),),
                  **({"boolean_image_slice": "spin polynomials m*B((1-z)/2) for every boolean B over 3 variables with <= %d unit-coefficient terms, offsets {0,1,-1} (the inputs that reach the boolean special forms); bounds omitted/exact/loose-half, lam 1" % (2 if ctx.quick else 3)} if spin else {}),
                  **({} if spin else {"huge_coefficient_slice": "P = +-((2^k + d) x - y), k in %s, d in {0,1}, relations <=,<,>=,>, log_trick: the penalty is shown to equal lam (Q + sum c_i a_i)^2 as an integer polynomial identity with contiguous slack range, then decided analytically on all four (x, y)" % (BIG_K,)}),
                  "forms": "dict everywhere; PUBO/PUSO object and variable expression where bounds omitted and lam=1", "max_ancillas": MAX_ANC,
                  "sequence_menu": [[m[0], rp.jdict(m[1]), m[2]] for m in menu],
                  "sequence_length": 2 if (ctx.quick or spin) else "2 and 3"}
    ctx.rule = "case = constraint polynomial (all relations/options inside) or one ordered constraint sequence; non-trivial = polynomial has a non-constant term"
    explore_cases(ctx, gen_cases(ctx.tier, spin), check, label="C03" if spin else "C02")
    if not spin:
        explore_cases(ctx, lambda: big_cases(), check_big, label="C02 huge coefficients")


# ------------------------------------------------------------------ huge coefficients: decided through the structure of the penalty

BIG_K = (49, 50, 53, 60)


def big_cases():
    for k in BIG_K:
        for rel, sign in (("le", -1), ("lt", -1), ("ge", 1), ("gt", 1)):
            for d in (0, 1):
                yield {"part": "big", "k": k, "rel": rel, "sign": sign, "d": d}


def _expand_square(lam, Q, c):
    """lam * (Q(x) + sum_i c_i a_i)^2 over booleans (x^2 = x), exact integers.  Q: {frozenset: int}; c: {ancilla: int}."""
    lin = dict(Q)
    for a, ci in c.items():
        lin[frozenset([a])] = lin.get(frozenset([a]), 0) + ci
    out = {}
    items = list(lin.items())
    for k1, v1 in items:
        for k2, v2 in items:
            k = k1 | k2
            out[k] = out.get(k, 0) + lam * v1 * v2
    return {k: v for k, v in out.items() if v}


def check_big(case, st):
    """P = sign * (2^k + d) * x - sign * y with log_trick=True needs ~k slack bits: far too many to enumerate.  The added terms are
    shown to be EXACTLY lam * (Q(x, y) + sum_i c_i a_i)^2 (integer polynomial identity), the c_i to have contiguous subset sums
    [0, C], and then min over the ancillas is 0 iff 0 <= -Q(x, y) <= C: checked against the relation on all four (x, y)."""
    import math
    qv = paths.import_qubovert()
    k, rel, sign, d = case["k"], case["rel"], case["sign"], case["d"]
    Mag = 2 ** k + d
    P = {("x",): sign * Mag, ("y",): -sign}
    lam = 3
    H = qv.PCBO()
    st.transitions += 1
    st.traces += 1
    st.nontrivial += 1
    r, _w = call(getattr(H, "add_constraint_%s_zero" % rel), dict(P), lam=lam, log_trick=True)

    def v(kind, msg):
        st.violation("big|%s|%s" % (rel, kind), case, "C02 PCBO().add_constraint_%s_zero(%s, lam=3, log_trick=True): %s" % (rel, P, msg))
    if isinstance(r, Raised):
        v("raises-" + r.kind, "raised %r" % r.exc)
        return
    anc = sorted({l for key in H for l in key if is_anc(l)}, key=lambda a: int(str(a)[3:]))
    if not all(isinstance(c_, int) and not isinstance(c_, bool) for c_ in H.values()) or len(anc) < 3:
        st.outcomes["big: coefficients not exact integers / fewer than 3 ancillas -> not decided by this part"] += 1
        return
    F = {frozenset(key): c_ for key, c_ in H.items()}
    pair = lambda a, b_: F.get(frozenset([a, b_]), 0)      # noqa: E731   = 2 lam c_a c_b
    p01, p02, p12 = pair(anc[0], anc[1]), pair(anc[0], anc[2]), pair(anc[1], anc[2])
    if not (p01 and p02 and p12) or (p01 * p02) % (p12 * 2 * lam):
        st.outcomes["big: penalty is not of the form lam (Q + sum c a)^2 -> not decided by this part"] += 1
        return
    c0sq = (p01 * p02) // (p12 * 2 * lam)
    c0 = math.isqrt(c0sq)
    if c0 * c0 != c0sq or c0 == 0:
        st.outcomes["big: penalty is not of the form lam (Q + sum c a)^2 -> not decided by this part"] += 1
        return
    c = {anc[0]: c0}
    for a in anc[1:]:
        num = pair(anc[0], a)
        if num % (2 * lam * c0):
            st.outcomes["big: penalty is not of the form lam (Q + sum c a)^2 -> not decided by this part"] += 1
            return
        c[a] = num // (2 * lam * c0)
    # Q from the cross terms with the first ancilla: coef(a0) = lam (c0^2 + 2 c0 q0), coef({a0, x}) = 2 lam c0 q_x
    Q = {}
    lin0 = F.get(frozenset([anc[0]]), 0) - lam * c0 * c0
    for key, name in ((frozenset(), None), (frozenset(["x"]), "x"), (frozenset(["y"]), "y")):
        num = lin0 if name is None else F.get(frozenset([anc[0], name]), 0)
        if num % (2 * lam * c0):
            st.outcomes["big: penalty is not of the form lam (Q + sum c a)^2 -> not decided by this part"] += 1
            return
        if num:
            Q[key] = num // (2 * lam * c0)
    if _expand_square(lam, Q, c) != {k_: v_ for k_, v_ in F.items() if v_}:
        st.outcomes["big: penalty is not of the form lam (Q + sum c a)^2 -> not decided by this part"] += 1
        return
    cs = sorted(c.values())
    if cs[0] < 1 or any(cs[i] > 1 + sum(cs[:i]) for i in range(len(cs))):
        st.outcomes["big: slack coefficients without contiguous subset sums -> not decided by this part"] += 1
        return
    C = sum(cs)
    for x in (0, 1):
        for y in (0, 1):
            p = sign * Mag * x - sign * y
            q = Q.get(frozenset(), 0) + Q.get(frozenset(["x"]), 0) * x + Q.get(frozenset(["y"]), 0) * y
            want = bool(holds(rel, p))
            reach = 0 <= -q <= C
            if want and not reach:
                v("not-zero-on-satisfying", "x=%d, y=%d satisfies the relation (P = %d) but the penalty lam (Q + S)^2 with Q = %d and slack S in [0, %d] (%d bits) "
                  "cannot vanish: its minimum over the ancillas is %d" % (x, y, p, q, C, len(cs), lam * min(abs(q), abs(q + C)) ** 2))
                return
            if not want and reach:
                v("zero-on-violating", "x=%d, y=%d violates the relation (P = %d) but the slack can cancel Q = %d" % (x, y, p, q))
                return
    st.outcomes["big: decided (k=%d)" % k] += 1


def replay(case):
    st = Stats()
    if case["part"] == "big":
        check_big({k_: case[k_] for k_ in ("part", "k", "rel", "sign", "d")}, st)
        return [(s, m) for s, c, m in st.viol]
    if case["part"] == "single":
        check({"part": "single", "poly": case["poly"], "spin": case.get("spin", False), "wide": case.get("wide", False)}, st)
    else:
        check({"part": "seq", "seq": case["seq"], "spin": case.get("spin", False)}, st)
    return [(s, m) for s, c, m in st.viol]
