"""C17 -- the C annealing kernels are memory-safe on every valid call.

Engine A over call histories + Engine C: driver sub-processes execute exhaustive products of valid
calls on an AddressSanitizer+UBSan build of the kernels rebuilt from /repo (stock RNG with real seeds,
and the scripted RNG with all tapes within a deviation bound); the monitor is any sanitizer report,
signal or abnormal exit.  Ordered pairs of calls in one process must not influence each other.
Thorough adds a valgrind memcheck pass (uninitialised-value use, which ASan does not see).
"""
import itertools
import json
import os
import re
import shutil
import subprocess
import sys
import tempfile

from .. import cbuild, gen, paths
from ..runner import Stats, pmap, NWORKERS, HarnessError

ID = "C17"
META = {
    "engine": "smallscope+tapedfs",
    "technique": "exhaustive enumeration of valid call configurations and ordered call pairs executed on an ASan+UBSan build of the real kernels; scripted-RNG tapes within a deviation bound on a scripted ASan build; valgrind memcheck pass in the thorough tier",
    "text": "Valid calls: 8 model shapes (single variable, Matrix label gaps / isolated variables, a degree-6 term, only linear terms, stale models with reported variables but no term, constant "
            "plus term, dense) x every accepted container x 9 schedules (incl. [], [0], [0,0]) x num_anneals {1,2,5} x 3 initial states x both orders x seeds {0, None} x the four functions, "
            "each executed on the sanitizer build; all ordered pairs of 24 representative calls in one process (second result must equal its stand-alone result); scripted-RNG tapes within 1 (quick) / "
            "2 (thorough) deviations with extreme words and all site indices (bounds above 9: the two ends and the middle). Any ASan/UBSan report, signal or abnormal exit is a violation attributed to the announced call.",
    "note": "Trusted: gcc sanitizer runtimes, valgrind. Bounded call shapes as listed. D4 (heap overflow in anneal_puso.c with zero terms) was found here and fixed.",
}

MODELS = {
    "single": {"terms": {(0,): -1}},
    "gap": {"terms": {(0, 3): 1, (3,): -1}, "matrix_only": True},
    "deg6": {"terms": {(0, 1, 2, 3, 4, 5): 1, (0,): -1}, "deg": 6},
    "linear": {"terms": {(0,): 1, (1,): -1}},
    "stale1": {"terms": {(0,): 1}, "stale": True},
    "stale2": {"terms": {(0, 1): 1}, "stale": True},
    "constterm": {"terms": {(): 2, (0, 1): -1}},
    "dense3": {"terms": {(0,): 1, (1,): -1, (2,): 0.5, (0, 1): 1, (0, 2): -1, (1, 2): 1}},
    "dense3c": {"terms": {(0,): 1, (1,): -1, (0, 1): 1, (1, 2): 1, (0, 1, 2): -2}, "deg": 3},
    # integer labels outside CPython's cache of small ints (their objects are owned by the model, not immortal)
    "biglabel": {"terms": {(0, 300): 1, (300,): -1, (0, 1, 300): 2}, "deg": 3, "matrix_only": True},
}
HUGE = {"hugegap": {"terms": {(0, 1500000): -1, (1500000,): 2}, "matrix_only": True}}
SCHEDULES = [[], [0], [0, 0], [1], [2, 0.5, 0], ["linear", 1], ["linear", 2], ["geometric", 1], ["geometric", 2]]


def call_specs(reduced=False):
    out = []
    for kind in ("spin", "bool"):
        conts = gen.SPIN_CONTAINERS if kind == "spin" else gen.BOOL_CONTAINERS
        for mname, m in MODELS.items():
            deg = m.get("deg", max((len(k) for k in m["terms"]), default=0))
            for cont in conts:
                if cont in gen.DEG2 and deg > 2:
                    continue
                if m.get("matrix_only") and cont not in gen.MATRIX:
                    continue
                if m.get("stale") and cont == "dict":
                    continue
                scheme = "int" if cont in gen.MATRIX else "str"
                fns = ((["anneal_quso"] if deg <= 2 else []) + ["anneal_puso"]) if kind == "spin" else ((["anneal_qubo"] if deg <= 2 else []) + ["anneal_pubo"])
                for fn in fns:
                    scheds = SCHEDULES if not reduced else [[1], [2, 0.5, 0], ["geometric", 2]]
                    for sch in scheds:
                        for na in ((1, 2, 5) if not reduced else (1, 2)):
                            for init in (("none", "ones", "alt") if not reduced else ("none", "alt")):
                                for in_order in (True, False):
                                    for seed in ((0, None) if not reduced else (0,)):
                                        out.append({"kind": kind, "model": mname, "container": cont, "scheme": scheme, "fn": fn, "schedule": sch,
                                                    "num_anneals": na, "init": init, "in_order": in_order, "seed": seed})
    return out


def reuse_specs():
    """The same model OBJECT annealed several times in a row and used afterwards (keys, variables, mapping, a conversion)."""
    out = []
    for s in call_specs(reduced=True):
        if s["model"] in ("biglabel", "dense3c", "gap", "deg6") and s["schedule"] == [1] and s["init"] == "none" and s["in_order"] and s["num_anneals"] == 1:
            out.append(dict(s, repeat=4))
    return out


def pair_specs():
    base = [s for s in call_specs() if s["seed"] == 0 and s["num_anneals"] == 2 and s["init"] == "none" and not s["in_order"]
            and s["schedule"] in ([2, 0.5, 0], ["geometric", 2])]
    pick = []
    seen = set()
    for s in base:
        key = (s["kind"], s["model"], s["fn"], s["container"] in gen.MATRIX)
        if key in seen or s["schedule"] != [2, 0.5, 0]:
            continue
        if s["model"] in ("single", "gap", "deg6", "stale1", "constterm", "dense3", "dense3c"):
            seen.add(key)
            pick.append(s)
    return pick[:24]


MAX_CRASHES_PER_BATCH = 12

ASAN_RE = re.compile(r"ERROR: AddressSanitizer: ([\w-]+)")
UBSAN_RE = re.compile(r"runtime error: (.*)")
LOC_RE = re.compile(r"(anneal_\w+\.c|_canneal\.c|random\.c|pcg_\w+\.c):(\d+)")


def classify(stderr, returncode):
    m = ASAN_RE.search(stderr)
    if m:
        kind = "asan:" + m.group(1)
        acc = re.search(r"\n(READ|WRITE) of size (\d+)", stderr)
        if acc:
            kind += ":" + acc.group(1)
    else:
        m = UBSAN_RE.search(stderr)
        if m:
            kind = "ubsan:" + re.sub(r"[^A-Za-z ]", "", m.group(1))[:40].strip().replace(" ", "-")
        elif returncode < 0:
            kind = "signal:%d" % (-returncode)
        else:
            kind = "exit:%d" % returncode
    loc = LOC_RE.search(stderr)
    return kind, ("%s:%s" % (loc.group(1), loc.group(2)) if loc else "?")


def drive(variant, mode, calls, env_extra=None, label=""):
    """Run the driver over `calls`, restarting after every abnormal exit.  Returns (results dict i->payload, crashes list)."""
    tmp = tempfile.mkdtemp(prefix="vt-c17-")
    results, crashes = {}, []
    try:
        cf = os.path.join(tmp, "calls.json")
        sf = os.path.join(tmp, "status")
        with open(cf, "w") as f:
            json.dump(calls, f)
        env = dict(os.environ, PYTHONHASHSEED="0", PYTHONDONTWRITEBYTECODE="1")
        env.update(cbuild.asan_env())
        env.update(env_extra or {})
        start = 0
        while start < len(calls):
            p = subprocess.run([sys.executable, "-m", "vt.c17_driver", variant, mode, cf, sf, str(start)], cwd=paths.VERIF, env=env,
                               capture_output=True, text=True)
            last_call = None
            ended = False
            for line in p.stdout.splitlines():
                if line.startswith("CALL "):
                    last_call = int(line[5:])
                elif line.startswith("DONE "):
                    _, i, payload = line.split(" ", 2)
                    results[int(i)] = payload
                    if last_call == int(i):
                        last_call = None
                elif line == "END":
                    ended = True
            if ended and p.returncode == 0:
                break
            if last_call is None:
                raise HarnessError("C17 driver (%s %s) died outside a call (exit %s):\n%s\n%s" % (variant, mode, p.returncode, p.stdout[-500:], p.stderr[-3000:]))
            kind, loc = classify(p.stderr, p.returncode)
            tape = None
            try:
                with open(sf) as f:
                    stt = json.loads(f.read().strip() or "{}")
                if stt.get("i") == last_call:
                    tape = stt.get("tape", stt.get("which"))
            except Exception:  # noqa
                pass
            keep = [l for l in p.stderr.splitlines() if "ERROR" in l or "runtime error" in l or re.search(r"#\d+ .*(anneal|canneal|random|pcg)", l)
                    or l.startswith(("READ", "WRITE")) or "is located" in l]
            crashes.append((last_call, kind, loc, tape, "\n".join(keep[:14])))
            start = last_call + 1
            if len(crashes) >= MAX_CRASHES_PER_BATCH:
                # every crash costs a process restart; a kernel that crashes this often has been reported often enough
                break
    finally:
        shutil.rmtree(tmp, ignore_errors=True)
    return results, crashes


def model_class(spec):
    m = dict(MODELS, **HUGE)[spec["model"]]
    if m.get("stale"):
        return "zero-terms-with-reported-variables"
    return spec["model"]


def run(ctx):
    st = ctx.stats
    quick = ctx.quick
    cbuild.build("asan")
    cbuild.build("scripted_asan")
    specs = call_specs()
    red = call_specs(reduced=True)
    pairs = pair_specs()
    d = 1 if quick else 2
    ctx.bounds = {"models": {k: [[list(t), c] for t, c in v["terms"].items()] for k, v in MODELS.items()}, "schedules": SCHEDULES,
                  "num_anneals": [1, 2, 5], "initial_states": ["none", "all +1 / all 0", "alternating"], "seeds": [0, None],
                  "single_calls": len(specs), "model_reuse_sequences": len(reuse_specs()), "pair_base_calls": len(pairs), "ordered_pairs": len(pairs) ** 2,
                  "scripted_configs": len(red), "deviation_bound": d, "deviated_positions": "the first 40 random draws of each call", "valgrind": not quick}
    ctx.rule = ("state = one call (or ordered pair, or scripted configuration) executed on the sanitizer build; transitions = kernel executions; "
                "non-trivial = call that reaches a kernel (num variables >= 1)")
    nsh = NWORKERS

    # ---- single calls on the asan build, twice: fresh heap memory filled with 0x00 resp. 0xCD by the allocator.
    #      A result that differs between the two runs depends on memory the extension never initialised.
    def work_single(k):
        part = [(i, s) for i, s in enumerate(specs) if i % nsh == k]
        out = []
        for fill in ("0", "205"):
            env = {"ASAN_OPTIONS": cbuild.asan_env()["ASAN_OPTIONS"] + ":malloc_fill_byte=%s:max_malloc_fill_size=1048576" % fill}
            res, crashes = drive("asan", "single", [s for _, s in part], env_extra=env)
            out.append(({part[j][0]: v for j, v in res.items()}, [(part[j][0], kind, loc, tape, err) for j, kind, loc, tape, err in crashes]))
        return out
    done = 0
    for (res0, crashes0), (res1, crashes1) in pmap(work_single, range(nsh)):
        done += len(res0) + len(res1)
        seen_crash = set()
        for i, kind, loc, tape, err in crashes0 + crashes1:
            if i in seen_crash:
                continue
            seen_crash.add(i)
            s = specs[i]
            st.violation("%s|%s|%s|%s" % (s["fn"], model_class(s), kind, loc), {"mode": "single", "spec": s},
                         "C17 %s on the ASan/UBSan build: %s at %s\n%s" % (s, kind, loc, _tail(err)))
        for i in res0:
            s = specs[i]
            if s["seed"] is not None and i in res1 and res0[i] != res1[i]:
                st.violation("%s|uninitialised-memory-influences-result|%s" % (s["fn"], "init-given" if s["init"] != "none" else "init-random"),
                             {"mode": "fill", "spec": s},
                             "C17 %s: with a fixed seed the result depends on the byte the allocator puts into fresh heap memory (0x00: %s ; 0xCD: %s): "
                             "the extension reads memory it never initialised" % (s, res0[i][:200], res1[i][:200]))
    st.states += len(specs)
    st.evaluations += len(specs)
    st.transitions += 2 * len(specs)
    st.traces += done
    st.nontrivial += len(specs)
    ctx.log("single calls: %d clean executions of %d calls x 2 heap fill patterns" % (done, len(specs)))

    # ---- one model object annealed repeatedly and used afterwards; Python's allocator routed to malloc so that ASan also sees
    #      the interpreter's own objects (a reference released by the extension that it never owned frees a label early)
    reuse = reuse_specs()

    def work_reuse(k):
        part = [(i, s) for i, s in enumerate(reuse) if i % nsh == k]
        res, crashes = drive("asan", "single", [s for _, s in part], env_extra={"PYTHONMALLOC": "malloc"})
        return [(part[j][0], kind, loc, tape, err) for j, kind, loc, tape, err in crashes], len(res)
    rdone = 0
    for crashes, n in pmap(work_reuse, range(nsh)):
        rdone += n
        for i, kind, loc, tape, err in crashes:
            s = reuse[i]
            st.violation("%s|%s|reuse|%s|%s" % (s["fn"], model_class(s), kind, loc), {"mode": "reuse", "spec": s},
                         "C17 %s (same model object annealed %d times, then used) on the ASan build with PYTHONMALLOC=malloc: %s at %s\n%s" % (s, s["repeat"], kind, loc, _tail(err)))
    st.states += len(reuse)
    st.evaluations += len(reuse)
    st.transitions += 4 * len(reuse)
    st.traces += 4 * rdone
    ctx.log("model reuse: %d of %d sequences clean" % (rdone, len(reuse)))

    # ---- a Matrix model with a label gap of 1.5 million (every buffer of the kernels scales with max_index + 1)
    huge = [{"kind": k, "model": "hugegap", "container": c, "scheme": "int", "fn": f, "schedule": [1], "num_anneals": 1,
             "init": "none", "in_order": True, "seed": 0}
            for k, c, f in (("spin", "QUSOMatrix", "anneal_quso"), ("spin", "PUSOMatrix", "anneal_puso"), ("bool", "QUBOMatrix", "anneal_qubo"))]

    def work_huge(k):
        res, crashes = drive("asan", "single", [huge[k]], env_extra={"ASAN_OPTIONS": cbuild.asan_env()["ASAN_OPTIONS"] + ":detect_stack_use_after_return=0"})
        return crashes, len(res)
    for k, (crashes, n) in enumerate(pmap(work_huge, range(len(huge)))):
        st.states += 1
        st.evaluations += 1
        st.transitions += 1
        st.traces += n
        for i, kind, loc, tape, err in crashes:
            s = huge[k]
            st.violation("%s|hugegap|%s|%s" % (s["fn"], kind, loc), {"mode": "single", "spec": s},
                         "C17 %s (max label 1500000): %s at %s\n%s" % (s, kind, loc, _tail(err)))
    ctx.log("huge label gap: %d calls" % len(huge))

    # ---- ordered pairs in one process
    alone = {}
    def work_alone(k):
        out = {}
        for i, s in enumerate(pairs):
            if i % nsh == k:
                res, crashes = drive("asan", "single", [s])
                out[i] = res.get(0)
        return out
    for o in pmap(work_alone, range(nsh)):
        alone.update(o)
    plist = [(a, b) for a in range(len(pairs)) for b in range(len(pairs))]

    def work_pairs(k):
        part = [pq for j, pq in enumerate(plist) if j % nsh == k]
        res, crashes = drive("asan", "pairs", [[pairs[a], pairs[b]] for a, b in part])
        return part, res, crashes
    for part, res, crashes in pmap(work_pairs, range(nsh)):
        for j, (a, b) in enumerate(part):
            st.states += 1
            st.evaluations += 1
            st.transitions += 2
            if j in res:
                st.traces += 2
                if alone.get(b) is not None and res[j] != alone[b]:
                    st.violation("pair|later-call-affected|%s" % pairs[b]["fn"], {"mode": "pairs", "first": pairs[a], "second": pairs[b]},
                                 "C17 running %s first changes the result of %s: %s, stand-alone %s" % (pairs[a], pairs[b], res[j][:300], alone[b][:300]))
        for j, kind, loc, which, err in crashes:
            a, b = part[j]
            culprit = pairs[b] if which == 1 else pairs[a]
            st.violation("%s|%s|%s|%s" % (culprit["fn"], model_class(culprit), kind, loc), {"mode": "pairs", "first": pairs[a], "second": pairs[b]},
                         "C17 pair (%s ; %s), during the %s call: %s at %s\n%s" % (pairs[a], pairs[b], "second" if which == 1 else "first", kind, loc, _tail(err)))
    ctx.log("ordered pairs done: %d" % len(plist))

    # ---- scripted RNG within d deviations on the scripted ASan build
    def work_explore(k):
        part = [(i, s) for i, s in enumerate(red) if i % nsh == k]
        res, crashes = drive("scripted_asan", "explore", [s for _, s in part], env_extra={"C17_DEVIATIONS": str(d)})
        return [(part[j][0], kind, loc, tape, err) for j, kind, loc, tape, err in crashes], sum(int(v) for v in res.values()), len(res)
    tapes = 0
    for crashes, nt, nr in pmap(work_explore, range(nsh)):
        tapes += nt
        for i, kind, loc, tape, err in crashes:
            s = red[i]
            st.violation("%s|%s|%s|%s" % (s["fn"], model_class(s), kind, loc), {"mode": "explore", "spec": s, "tape": tape, "d": d},
                         "C17 %s with scripted RNG tape %r: %s at %s\n%s" % (s, tape, kind, loc, _tail(err)))
    st.states += tapes
    st.transitions += tapes
    st.traces += tapes
    st.evaluations += len(red)
    st.extra["scripted_tapes_executed"] = tapes
    ctx.log("scripted exploration: %d tapes over %d configurations" % (tapes, len(red)))

    # ---- valgrind (thorough)
    if not quick:
        valgrind_pass(ctx, specs)
    ctx.exhaustive = True


def _tail(err):
    return "      " + "\n      ".join(err.splitlines()[:10])


def valgrind_pass(ctx, specs):
    """memcheck over a reduced single-call set on the plain build; only errors with a frame inside _canneal count."""
    st = ctx.stats
    sel = [s for s in specs if s["num_anneals"] == 2 and s["seed"] == 0 and s["init"] in ("none", "alt") and s["schedule"] in ([], [0], [1], [2, 0.5, 0], ["geometric", 2])]
    so = cbuild.build("plain")
    nsh = NWORKERS

    def work(k):
        part = [s for i, s in enumerate(sel) if i % nsh == k]
        tmp = tempfile.mkdtemp(prefix="vt-c17-vg-")
        try:
            cf, sf, xf = os.path.join(tmp, "calls.json"), os.path.join(tmp, "status"), os.path.join(tmp, "vg.xml")
            with open(cf, "w") as f:
                json.dump(part, f)
            env = dict(os.environ, PYTHONHASHSEED="0", PYTHONMALLOC="malloc", PYTHONDONTWRITEBYTECODE="1")
            p = subprocess.run(["valgrind", "--tool=memcheck", "--leak-check=no", "--xml=yes", "--xml-file=" + xf, "--error-limit=no", "--num-callers=30",
                                sys.executable, "-m", "vt.c17_driver", "plain", "single", cf, sf], cwd=paths.VERIF, env=env, capture_output=True, text=True)
            if "END" not in p.stdout:
                return ("harness", p.stdout[-300:] + p.stderr[-1500:], 0)
            import xml.etree.ElementTree as ET
            errs = []
            try:
                root = ET.parse(xf).getroot()
            except Exception as e:  # noqa
                return ("harness", "cannot parse valgrind xml: %r" % e, 0)
            for e in root.iter("error"):
                kind = e.findtext("kind")
                frames = [(f.findtext("obj") or "", f.findtext("fn") or "", f.findtext("file") or "", f.findtext("line") or "") for f in e.iter("frame")]
                if any("_canneal" in fr[0] or "vtbuild" in fr[0] for fr in frames) and not kind.startswith("Leak"):
                    own = [fr for fr in frames if "_canneal" in fr[0]]
                    errs.append((kind, "%s:%s" % (own[0][2], own[0][3]) if own else "?", own[0][1] if own else "?"))
            return ("ok", errs, len(part))
        finally:
            shutil.rmtree(tmp, ignore_errors=True)
    total = 0
    for tag, payload, n in pmap(work, range(nsh)):
        if tag == "harness":
            raise HarnessError("valgrind pass failed: %s" % payload)
        total += n
        for kind, loc, fn in payload:
            st.violation("valgrind|%s|%s" % (kind, loc), {"mode": "valgrind"}, "C17 valgrind memcheck: %s in %s at %s" % (kind, fn, loc))
    st.transitions += total
    st.traces += total
    st.extra["valgrind_calls"] = total
    ctx.log("valgrind pass over %d calls" % total)


def replay(case):
    mode = case["mode"]
    if mode == "single":
        res, crashes = drive("asan", "single", [case["spec"]])
        s = case["spec"]
        return [("%s|%s|%s|%s" % (s["fn"], model_class(s), kind, loc), "C17 %s: %s at %s" % (s, kind, loc)) for _, kind, loc, tape, err in crashes]
    if mode == "reuse":
        res, crashes = drive("asan", "single", [case["spec"]], env_extra={"PYTHONMALLOC": "malloc"})
        s = case["spec"]
        return [("%s|%s|reuse|%s|%s" % (s["fn"], model_class(s), kind, loc), "C17 %s reuse: %s at %s" % (s, kind, loc)) for _, kind, loc, tape, err in crashes]
    if mode == "fill":
        s = case["spec"]
        outs = []
        for fill in ("0", "205"):
            env = {"ASAN_OPTIONS": cbuild.asan_env()["ASAN_OPTIONS"] + ":malloc_fill_byte=%s:max_malloc_fill_size=1048576" % fill}
            res, crashes = drive("asan", "single", [s], env_extra=env)
            outs.append(res.get(0))
        if outs[0] != outs[1]:
            return [("%s|uninitialised-memory-influences-result|%s" % (s["fn"], "init-given" if s["init"] != "none" else "init-random"),
                     "C17 %s: result depends on the allocator's fill byte: %s vs %s" % (s, str(outs[0])[:200], str(outs[1])[:200]))]
        return []
    if mode == "pairs":
        res, crashes = drive("asan", "pairs", [[case["first"], case["second"]]])
        out = []
        for _, kind, loc, which, err in crashes:
            culprit = case["second"] if which == 1 else case["first"]
            out.append(("%s|%s|%s|%s" % (culprit["fn"], model_class(culprit), kind, loc), "C17 pair: %s at %s" % (kind, loc)))
        if not crashes:
            alone, _c = drive("asan", "single", [case["second"]])
            if alone.get(0) != res.get(0):
                out.append(("pair|later-call-affected|%s" % case["second"]["fn"], "C17 pair: result of the second call differs from its stand-alone result"))
        return out
    if mode == "explore":
        res, crashes = drive("scripted_asan", "explore", [case["spec"]], env_extra={"C17_DEVIATIONS": str(case.get("d", 1))})
        s = case["spec"]
        return [("%s|%s|%s|%s" % (s["fn"], model_class(s), kind, loc), "C17 %s tape %r: %s at %s" % (s, tape, kind, loc)) for _, kind, loc, tape, err in crashes]
    if mode == "valgrind":
        from ..runner import Ctx
        ctx = Ctx("C17", "thorough", 0)
        valgrind_pass(ctx, call_specs())
        return [(s, m) for s, c, m in ctx.stats.viol]
    return []
