"""C14 -- model bookkeeping stays consistent under every history of edits.

Engine B: explicit-state BFS over edit histories on real model objects, one search per type.
Canonical state key = every field a future operation can read (dict items in insertion order and the
whole __dict__, private counters included -- read for hashing only, never by an oracle).
"""
import numpy as np

from .. import gen, paths
from ..common import call, Raised, short, snap
from ..histbfs import bfs
from ..ref import poly as rp

ID = "C14"
META = {
    "engine": "histbfs",
    "technique": "explicit-state BFS over edit histories of the real model objects (one search per type), invariant + conversion oracles in every reached state",
    "text": "From the empty model of each of the ten types, every history of up to 3 (quick) / 4 (thorough) edits from an alphabet of ~50 (item assignment and "
            "augmented assignment incl. zero values, cancelling keys, repeated labels, in-place arithmetic with scalars and dicts, **=, update, clear, refresh, continuing on "
            "copy(), and for PCBO/PCSO three constraints) is explored with canonical state hashing; in every state: reported variables/degree/num_binary_variables bound the "
            "true ones, mapping/reverse_mapping are inverse bijections on exactly the reported variables, refresh() keeps the function and makes everything exact, every "
            "enumerated / reduced form is checked against the model's table through the mapping with ancillas strictly above every mapped label, and constraint ancilla "
            "names are never reused.",
    "note": "Bounded: 4 labels, edit depth 3/4, small coefficient values. set_mapping is not in the statement's edit list; it is in the menu anyway (cyclic shift of the current enumeration), because later edits must keep the mapping a bijection.",
}

LAB = ["a", "b", "c", "d"]
LABELLED = ("QUBO", "QUSO", "PUBO", "PUSO", "PCBO", "PCSO")
MATRIX = ("QUBOMatrix", "QUSOMatrix", "PUBOMatrix", "PUSOMatrix")
CONSTRAINTS = [
    ("le", {(0,): 1, (1,): 1, (): -1}),                  # no ancilla
    ("le", {(0,): 1, (1,): 1, (2,): 1, (): -2}),         # slack ancillas
    ("ne", {(0,): 1, (1,): 1, (2,): -1}),                # sign ancilla + slack
    ("gt", {(0,): 1, (1,): 1, (2,): -1}),                # each relation has its own wrapper around the ancilla counter
    ("ge", {(0,): 2, (1,): -1, (2,): -1}),
    ("lt", {(0,): 1, (1,): -1, (2,): 1, (): -1}),
]


def labels_for(typ):
    return [0, 1, 2, 3] if typ in MATRIX else LAB


def keyset(typ):
    ks = [(), (0,), (1,), (0, 1), (0, 0), (3,)]
    if typ not in gen.DEG2:
        ks.append((0, 1, 2))
    return ks


def alphabet(typ):
    ops = []
    for k in keyset(typ):
        for v in (0, 1, -1):
            ops.append(["set", list(k), v])
        for v in (1, -1):
            ops.append(["itemadd", list(k), v])
    dicts = [[[[0], 1], [[1, 2], -1]], [[[0], -1]]]
    if typ in gen.DEG2:
        dicts = [[[[0], 1], [[1, 2], -1]], [[[0], -1]]]
    for d in dicts:
        ops.append(["iadd", d])
        ops.append(["isub", d])
    ops.append(["iadd", 1])
    ops.append(["isub", 1])
    ops += [["imul", 2], ["imul", 0], ["imul", [[[0], 1]]], ["imul", [[[1], 1], [[], 1]]], ["ipow", 2],
            ["update", [[[0, 1], 1], [[2], 0]]], ["update", [[[3], 2]]], ["clear"], ["refresh"], ["copy"]]
    if typ in LABELLED:
        ops.append(["convert"])     # call every conversion and throw the results away: later states must not depend on it
        ops.append(["setmap"])      # user-chosen enumeration (documented set_mapping): later edits must keep the mapping a bijection
    if typ in ("PCBO", "PCSO"):
        ops += [["con", i] for i in range(len(CONSTRAINTS))]
        ops.append(["update-model", [[[0], 1], [[1, 3], -2]]])      # update() with a fresh model of the same class (it has no ancillas)
    return ops


def rl(typ, k):
    L = labels_for(typ)
    return tuple(L[i] for i in k)


def mkdict(typ, jd):
    return {rl(typ, k): v for k, v in (jd.items() if isinstance(jd, dict) else jd)}


def is_anc(l):
    return isinstance(l, str) and l.startswith("__a")


def true_vars(M):
    return {l for k, v in M.items() for l in k}


def full_key(M):
    d = M.__dict__
    # full=True: EVERY attribute (also ones this harness does not know, e.g. a memo added later) is part of the state key
    return (type(M).__name__, tuple((k, float(v)) for k, v in M.items()), snap(d, full=True))


def invariants(M, typ, spin):
    """State invariants of C14 (no conversions).  Returns list of (kind, message)."""
    out = []
    tv = true_vars(M)
    tdeg = max((len(k) for k in M), default=0)
    var, _w = call(lambda: M.variables)
    deg, _w = call(lambda: M.degree)
    nbv, _w = call(lambda: M.num_binary_variables)
    if isinstance(var, Raised) or isinstance(deg, Raised) or isinstance(nbv, Raised):
        return [("raises", "bookkeeping property raised: %r %r %r" % (var, deg, nbv))]
    if not tv <= set(var):
        out.append(("variables-not-upper-bound", "variables %r do not contain the true variables %r" % (sorted(var, key=repr), sorted(tv, key=repr))))
    if M and deg < tdeg:
        out.append(("degree-not-upper-bound", "degree %r < true degree %r" % (deg, tdeg)))
    if nbv < len(tv):
        out.append(("nbv-not-upper-bound", "num_binary_variables %r < %d true variables" % (nbv, len(tv))))
    if typ in LABELLED:
        mp, _w = call(lambda: M.mapping)
        rm, _w = call(lambda: M.reverse_mapping)
        if isinstance(mp, Raised) or isinstance(rm, Raised):
            return out + [("raises", "mapping raised %r %r" % (mp, rm))]
        if set(mp) != set(var):
            out.append(("mapping-keys", "mapping keys %r != reported variables %r" % (sorted(mp, key=repr), sorted(var, key=repr))))
        elif sorted(mp.values()) != list(range(nbv)):
            out.append(("mapping-range", "mapping values %r are not 0..%d" % (sorted(mp.values()), nbv - 1)))
        elif rm != {i: l for l, i in mp.items()}:
            out.append(("reverse-mapping", "reverse_mapping %r is not the inverse of mapping %r" % (rm, mp)))
    return out


def refresh_oracle(M, typ, spin):
    out = []
    C = M.copy() if False else None
    items = dict(M)
    # work on a copy built by replaying is not needed: refresh is checked on a deep copy made through pickle-free means
    import copy as _copy
    R = _copy.deepcopy(M)
    r, _w = call(R.refresh)
    if isinstance(r, Raised):
        return [("refresh-raises", "refresh() raised %r" % r.exc)]
    if dict(R) != items:
        out.append(("refresh-changes-function", "refresh() changed the terms from %s to %s" % (short(items), short(dict(R)))))
        return out
    tv = true_vars(R)
    tdeg = max((len(k) for k in R), default=0)
    if set(R.variables) != tv:
        out.append(("refresh-variables-inexact", "after refresh() variables = %r, true %r" % (sorted(R.variables, key=repr), sorted(tv, key=repr))))
    if R.num_binary_variables != len(tv):
        out.append(("refresh-nbv-inexact", "after refresh() num_binary_variables = %r, true %d" % (R.num_binary_variables, len(tv))))
    if R and R.degree != tdeg:
        out.append(("refresh-degree-inexact", "after refresh() degree = %r, true %r" % (R.degree, tdeg)))
    if not R and R.degree not in (0, -float("inf")):
        out.append(("refresh-degree-inexact", "after refresh() of the empty model degree = %r" % (R.degree,)))
    out += [("refresh-" + k, "after refresh(): " + m) for k, m in invariants(R, typ, spin)]
    if typ in LABELLED and not out:
        if set(R.mapping) != tv:
            out.append(("refresh-mapping-inexact", "after refresh() mapping keys %r, true variables %r" % (sorted(R.mapping, key=repr), sorted(tv, key=repr))))
    return out


def forms_oracle(M, typ, spin):
    """Enumerated / reduced forms vs the model's own table, through the mapping."""
    out = []
    mp = M.mapping
    n = M.num_binary_variables
    if n > 7:
        return out
    inv = {i: l for l, i in mp.items()}
    mlabels = [inv[i] for i in range(n)]
    Mtab = rp.tt(M, mlabels, spin)
    mdeg = max((len(k) for k in M), default=0)
    for tname in ("to_pubo", "to_puso", "to_qubo", "to_quso"):
        tspin = tname in ("to_puso", "to_quso")
        D, _w = call(getattr(M, tname))
        if isinstance(D, Raised):
            out.append(("%s-raises-%s" % (tname, D.kind), "%s() raised %r" % (tname, D.exc)))
            continue
        used = {l for k in D for l in k}
        if any((not isinstance(l, (int, np.integer))) or l < 0 for l in used):
            out.append(("%s-labels" % tname, "%s() uses labels %r" % (tname, sorted(used, key=repr))))
            continue
        top = max(used, default=-1)
        a = max(0, top + 1 - n)
        if a > 8:
            continue
        if a and not (tname in ("to_qubo", "to_quso") and mdeg > 2):
            out.append(("%s-unexpected-ancilla" % tname, "%s() needs no reduction but uses labels %r beyond the %d mapped ones" % (tname, sorted(l for l in used if l >= n), n)))
            continue
        Dtab = rp.tt(D, list(range(n + a)), tspin).reshape(1 << a, 1 << n)
        ext = (np.abs(Dtab - Mtab[None, :]) <= 1e-9 * (1 + np.abs(Mtab[None, :]))).any(axis=0)
        if not ext.all():
            x = int(np.nonzero(~ext)[0][0])
            out.append(("%s-wrong-value" % tname, "%s() = %s: at x = %r the model is %r but no ancilla setting gives that value (label collision or wrong relabelling); mapping %r"
                        % (tname, short(dict(D)), rp.assignment(x, mlabels, spin), Mtab[x], mp)))
            continue
        if (Dtab < Mtab[None, :] - 1e-9).any():
            out.append(("%s-undercuts" % tname, "%s() = %s undercuts the model" % (tname, short(dict(D)))))
            continue
        # a minimiser converts back to a minimiser
        ai, x = np.unravel_index(int(Dtab.argmin()), Dtab.shape)
        s = rp.assignment(int(x) | (int(ai) << n), list(range(n + a)), tspin)
        r, _w = call(M.convert_solution, s, tspin)
        if isinstance(r, Raised):
            out.append(("%s-convert_solution-raises" % tname, "convert_solution(%r) raised %r" % (s, r.exc)))
        else:
            val, _w = call(M.value, r)
            if isinstance(val, Raised) or abs(val - Mtab.min()) > 1e-9:
                out.append(("%s-convert_solution" % tname, "minimiser %r converts to %r with value %r, min %r" % (s, r, val, Mtab.min())))
    return out


def make_step(typ, with_forms=True):
    spin = typ in gen.SPIN_TYPES
    cls = gen.cls(typ)

    def step(hist):
        M = cls()
        viol = []
        for n, op in enumerate(hist):
            last = n == len(hist) - 1
            vv = []
            name = op[0]
            vars_before = set(M.variables)
            anc_expected = None

            def v(kind, msg):
                vv.append(("%s|%s|%s" % (typ, _opclass(op), kind), "C14 %s history %s: %s" % (typ, hist[:n + 1], msg)))
            r = None
            if name == "set":
                r, _w = call(M.__setitem__, rl(typ, op[1]), op[2])
            elif name == "itemadd":
                def f():
                    M[rl(typ, op[1])] += op[2]
                r, _w = call(f)
            elif name in ("iadd", "isub", "imul"):
                o = op[1] if not isinstance(op[1], list) else mkdict(typ, op[1])

                def f(M=M, o=o):
                    x = M
                    if name == "iadd":
                        x += o
                    elif name == "isub":
                        x -= o
                    else:
                        x *= o
                    return x
                r, _w = call(f)
                if not isinstance(r, Raised) and r is not M:
                    v("inplace-new-object", "in-place operator returned a new object")
            elif name == "ipow":
                def f(M=M):
                    x = M
                    x **= op[1]
                    return x
                r, _w = call(f)
            elif name == "update":
                r, _w = call(M.update, mkdict(typ, op[1]))
            elif name == "update-model":
                r, _w = call(M.update, type(M)(mkdict(typ, op[1])))
            elif name == "clear":
                r, _w = call(M.clear)
            elif name == "refresh":
                r, _w = call(M.refresh)
            elif name == "copy":
                r, _w = call(M.copy)
                if not isinstance(r, Raised):
                    if type(r) is not type(M) or dict(r) != dict(M):
                        v("copy", "copy() gives %s" % short(r))
                    M = r
            elif name == "setmap":
                def f(M=M):
                    mp = M.mapping
                    if len(mp) >= 2 and sorted(mp.values()) == list(range(len(mp))):
                        gen.permute_mapping(M, "setmap")
                r, _w = call(f)
            elif name == "convert":
                def f(M=M):
                    for t in ("to_pubo", "to_puso", "to_qubo", "to_quso", "to_enumerated"):
                        try:
                            getattr(M, t)()
                        except Exception:  # noqa -- conversions of this state are judged by the forms oracle, not here
                            pass
                r, _w = call(f)
            elif name == "con":
                rel, D = CONSTRAINTS[op[1]]
                P = mkdict(typ, D)
                fresh = cls()
                call(getattr(fresh, "add_constraint_%s_zero" % rel), dict(P), lam=2)
                anc_expected = len([l for l in true_vars(fresh) if is_anc(l)])
                r, _w = call(getattr(M, "add_constraint_%s_zero" % rel), dict(P), lam=2)
            if isinstance(r, Raised):
                # documented rejections (degree-2 types) and anything else: the edit did not happen; not expanded
                return {"key": None, "viol": viol if False else [], "expand": False, "why": "edit raised %s" % r.kind}
            if name == "con":
                new_anc = {l for l in M.variables if is_anc(l)} - vars_before
                reused = [l for l in true_vars(M) if is_anc(l) and l in vars_before]
                if len(new_anc) < anc_expected:
                    v("ancilla-reuse", "the constraint needs %d ancillas on a fresh model but introduced only %r here (variables before: %r)"
                      % (anc_expected, sorted(new_anc), sorted(vars_before, key=repr)))
            for k, m in invariants(M, typ, spin):
                v(k, m)
            if last:
                # the state key is taken BEFORE the oracles below call any conversion: the conversions the oracle makes
                # must not leak into the identity of the state (a memo filled by them would merge it with "convert" states)
                key_before_oracles = full_key(M)
            if not vv and last:
                for k, m in refresh_oracle(M, typ, spin):
                    v(k, m)
                if typ in LABELLED and with_forms and not vv:
                    for k, m in forms_oracle(M, typ, spin):
                        v(k, m)
            if vv and not last:
                return {"key": None, "viol": vv, "expand": False}
            viol = vv
        big = max((abs(v) for v in M.values()), default=0)
        return {"key": key_before_oracles if hist else full_key(M), "viol": viol, "expand": big <= 64 and len(M) <= 48, "why": "size bound (|coef| > 64 or > 48 terms)",
                "nontrivial": set(M.variables) != true_vars(M) or len(M) >= 2}

    return step


def _opclass(op):
    if op[0] in ("set", "itemadd"):
        return "%s(%s,%s)" % (op[0], "len%d%s" % (len(op[1]), "-repeated" if len(set(op[1])) < len(op[1]) else ""), "zero" if op[2] == 0 else "nonzero")
    if op[0] in ("iadd", "isub", "imul"):
        return "%s(%s)" % (op[0], "dict" if isinstance(op[1], list) else "scalar%s" % op[1])
    if op[0] == "con":
        return "constraint%d" % op[1]
    return op[0]


def run(ctx):
    depth = 3 if ctx.quick else 4
    types = list(LABELLED) + list(MATRIX)
    ctx.bounds = {"types": types, "labels": LAB, "edit_depth": depth, "alphabet_size": {t: len(alphabet(t)) for t in types},
                  "constraints": [[c[0], rp.jdict(c[1])] for c in CONSTRAINTS]}
    ctx.rule = ("state = (type, dict items in insertion order, all bookkeeping attributes) reached by an edit history from the empty model; "
                "non-trivial = bookkeeping is stale (reported variables differ from true ones) or >= 2 terms")
    per = {}
    for typ in types:
        before = ctx.stats.states
        step = make_step(typ)
        d = depth if typ in LABELLED else depth
        bfs(ctx, step, alphabet(typ), max_depth=d, label="C14 %s" % typ, wrap=lambda h, typ=typ: [typ, h],
            count_outcome=lambda h, r: "violation" if r["viol"] else ("rejected/pruned" if r["key"] is None or not r.get("expand", True) else "ok"))
        per[typ] = {"states": ctx.stats.states - before, "depth": ctx.stats.extra.get("bfs_depth_completed"),
                    "new_per_level": ctx.stats.extra.get("bfs_new_states_per_level")}
    ctx.stats.extra["per_type"] = per
    ctx.exhaustive = True


def replay(case):
    # the history does not name its type; the first element of a replay case is the type
    typ, hist = case[0], case[1]
    return make_step(typ)(hist)["viol"]
