"""C15 -- approximate extrema enclose the true extrema; anneal_temperature_range is ordered.

Engine A: all small models x containers x label schemes x the four functions, full truth table.
"""
from .. import gen, paths
from ..common import call, Raised, short
from ..ref import poly as rp
from ..runner import explore_cases

ID = "C15"
META = {
    "engine": "smallscope",
    "technique": "exhaustive small-scope enumeration of models x containers x labels, bounds compared with the full truth table",
    "text": "Every model with <=3 variables and <=3 (quick) / <=4 (thorough) terms over {-2,-1,-1/2,1,2,3} with and without offset, in every container, "
            "raw-dict spelling and label scheme, is passed to the four approximate_*_extrema functions and to anneal_temperature_range with all 15 "
            "admissible probability pairs from {0,.01,.3,.5,.99} plus 6 pairs with probabilities within 1e-10 .. 2^-53 of 1; lo<=min, hi>=max, constants, T0>=Tf>=0 and (0,0) are checked on each. Histories: on every model type, "
            "the extrema functions are queried before and after each of <=2 edits from a menu of 16 (del / pop / popitem / item assignment / += -= *= / *= {} / clear / update): "
            "the bounds must describe the model as it is at that moment.",
    "note": "Bounded: n<=3, dyadic coefficient alphabet (exact in doubles). Models are in refreshed state.",
}

COEFS = (-2, -1, -0.5, 1, 2, 3)
OFFSETS = (0, -1.5)
PROBS = (0, 0.01, 0.3, 0.5, 0.99)
# flip probabilities within rounding distance of 1 (huge temperatures; start >= end)
_P1, _P2, _P3 = 1 - 1e-10, 1 - 1e-12, 1 - 2.0 ** -53
NEAR_ONE_PAIRS = [(_P1, _P1), (_P2, _P1), (_P3, _P3), (_P3, _P1), (_P2, 0.5), (_P3, 1e-300)]
N = 3


def gen_cases(tier):
    maxterms = 3 if tier == "quick" else 4

    def it():
        for kind in ("bool", "spin"):
            for D in gen.polys(N, maxterms, COEFS, offsets=OFFSETS):
                yield {"kind": kind, "poly": rp.jdict(D), "tier": tier}
            yield {"kind": kind, "poly": rp.jdict({(): 4}), "tier": tier}
            # scale slice: the same functions at very small and very large magnitudes (powers of two: exact)
            for D in gen.polys(N, 2, (-2, 1, 3), offsets=(0,), minterms=1):
                for sc in (2.0 ** -50, 2.0 ** 40):
                    yield {"kind": kind, "poly": rp.jdict({k: v * sc for k, v in D.items()}), "tier": tier}
    return it


def check(case, st):
    qv = paths.import_qubovert()
    from qubovert.sim import anneal_temperature_range
    spin = case["kind"] == "spin"
    D0 = rp.unjdict(case["poly"])
    deg = max((len(k) for k in D0), default=0)
    const = all(not k for k in D0)
    if len(D0) - (() in D0) >= 2:
        st.nontrivial += 1
    conts = list(gen.SPIN_CONTAINERS if spin else gen.BOOL_CONTAINERS) + ["dictperm", "dictrep", "dictdup"]
    for cont in conts:
        if cont in gen.DEG2 and deg > 2:
            continue
        for sch in (gen.MATRIX_SCHEMES if cont in gen.MATRIX else gen.LABELLED_SCHEMES):
            D = gen.relabel(D0, sch, N)
            labels = gen.labels_for(sch, N)
            st.extra["models_built"] = st.extra.get("models_built", 0) + 1
            if cont == "dictperm":
                M = {tuple(reversed(k)): v for k, v in D.items()}
            elif cont == "dictdup":
                from .c04 import spell
                M = spell(D, "dictdup", spin)
            elif cont == "dictrep":
                # raw dict whose keys repeat labels (same function: x^2 = x, z^2 = 1); the *_value functions accept these
                from .c04 import spell
                M = spell(D, "dictrep", spin)
            else:
                M = gen.build(cont, D)
            table = rp.tt(D, labels, spin)
            tmin, tmax = float(table.min()), float(table.max())
            fns = ["approximate_puso_extrema" if spin else "approximate_pubo_extrema"]
            if deg <= 2 and cont not in ("dictrep", "dictdup"):
                fns.append("approximate_quso_extrema" if spin else "approximate_qubo_extrema")
            for fn in fns:
                st.transitions += 1
                st.traces += 1
                r, _w = call(getattr(qv.utils, fn), M)

                def v(kind, msg, fn=fn):
                    st.violation("%s|%s|%s" % (fn, kind, "const" if const else "nonconst"),
                                 dict(case, container=cont, scheme=sch, fn=fn),
                                 "C15 %s(%s %s) = %r: %s" % (fn, cont, short(dict(M), 200), r, msg))
                if isinstance(r, Raised):
                    v("raises-" + r.kind, "raised %r" % r.exc)
                    continue
                lo, hi = r
                eps = 1e-9 * max(abs(tmin), abs(tmax), 1e-300)
                if lo > tmin + eps:
                    v("lo-above-min", "lo > true minimum %r" % tmin)
                if hi < tmax - eps:
                    v("hi-below-max", "hi < true maximum %r" % tmax)
                if const and not (abs(lo - tmin) <= eps and abs(hi - tmin) <= eps):
                    v("constant", "constant model must give lo = hi = %r" % tmin)
                st.outcomes["tight" if (abs(lo - tmin) < 1e-9 and abs(hi - tmax) < 1e-9) else "loose"] += 1
            # anneal_temperature_range (quick tier: label schemes int/str/gap only)
            if case.get("tier") == "quick" and sch not in ("int", "str", "gap"):
                continue
            pairs = [(s, e) for i, s in enumerate(PROBS) for e in PROBS[:i + 1]] + (NEAR_ONE_PAIRS if sch == "int" else [])
            for s, e in pairs:
                if True:
                    st.transitions += 1
                    st.traces += 1
                    r, _w = call(anneal_temperature_range, M, s, e, spin)

                    def v2(kind, msg):
                        st.violation("anneal_temperature_range|%s|%s" % (kind, "const" if const else "nonconst"),
                                     dict(case, container=cont, scheme=sch, fn="atr", start=s, end=e),
                                     "C15 anneal_temperature_range(%s %s, %r, %r, spin=%s) = %r: %s" % (cont, short(dict(M), 200), s, e, spin, r, msg))
                    if isinstance(r, Raised):
                        v2("raises-" + r.kind, "raised %r" % r.exc)
                        continue
                    T0, Tf = r
                    if const:
                        if (T0, Tf) != (0, 0):
                            v2("no-variables", "a model without variables must give (0, 0)")
                    elif not (T0 >= Tf >= 0):
                        v2("order", "expected T0 >= Tf >= 0")


# ------------------------------------------------------------------ histories: query, edit, query again (Engine B, depth 2)

HIST_START = {(0,): 2, (0, 1): -3, (2,): 1, (): 1.5}
HIST_EDITS = [["del", [0]], ["del", []], ["pop", [0, 1]], ["pop", []], ["popitem"], ["set", [2], -4], ["set", [], -2], ["set", [1, 2], 5],
              ["iadd", [[[1], 2], [[], 1]]], ["isub", [[[0], 2]]], ["imul", 0.5], ["imul", -2], ["imulempty"], ["clear"], ["update", [[[0], 7], [[], 0]]],
              ["delall-nonconst"]]


def hist_cases(tier):
    for kind in ("bool", "spin"):
        for cont in (gen.SPIN_CONTAINERS if kind == "spin" else gen.BOOL_CONTAINERS):
            if cont == "dict":
                continue
            for e1 in range(len(HIST_EDITS)):
                yield {"part": "hist", "kind": kind, "container": cont, "edits": [e1]}
                for e2 in range(len(HIST_EDITS)):
                    yield {"part": "hist", "kind": kind, "container": cont, "edits": [e1, e2]}


def check_hist(case, st):
    """The bounds must describe the model as it is NOW: the functions are queried before and after every edit."""
    qv = paths.import_qubovert()
    spin = case["kind"] == "spin"
    cont = case["container"]
    sch = "int" if cont in gen.MATRIX else "str"
    labels = gen.labels_for(sch, N)
    L = lambda k: tuple(labels[i] for i in k)      # noqa
    M = gen.build(cont, gen.relabel(HIST_START, sch, N))
    fns = ["approximate_puso_extrema" if spin else "approximate_pubo_extrema", "approximate_quso_extrema" if spin else "approximate_qubo_extrema"]
    st.nontrivial += 1

    def query(when):
        D = dict(M)
        table = rp.tt(D, labels, spin)
        tmin, tmax = float(table.min()), float(table.max())
        const = all(not k for k in D)
        for fn in fns:
            if max((len(k) for k in D), default=0) > 2 and "qu" in fn:
                continue
            st.transitions += 1
            st.traces += 1
            r, _w = call(getattr(qv.utils, fn), M)

            def v(kind, msg):
                st.violation("hist|%s|%s" % (fn, kind), case, "C15 %s %s, edits %s, %s: %s(%s) = %r: %s"
                             % (cont, HIST_START, [HIST_EDITS[i] for i in case["edits"]], when, fn, short(D, 160), r, msg))
            if isinstance(r, Raised):
                v("raises-" + r.kind, "raised %r" % r.exc)
                continue
            lo, hi = r
            eps = 1e-9 * max(abs(tmin), abs(tmax), 1.0)
            if lo > tmin + eps:
                v("lo-above-min", "lo > true minimum %r of the model as it is now" % tmin)
            elif hi < tmax - eps:
                v("hi-below-max", "hi < true maximum %r of the model as it is now" % tmax)
            elif const and not (abs(lo - tmin) <= eps and abs(hi - tmin) <= eps):
                v("constant", "the model is constant now: lo = hi = %r expected" % tmin)
    query("before any edit")
    for n, ei in enumerate(case["edits"]):
        e = HIST_EDITS[ei]

        def do():
            nonlocal M
            if e[0] == "del":
                if L(e[1]) in M:
                    del M[L(e[1])]
            elif e[0] == "pop":
                M.pop(L(e[1]), None)
            elif e[0] == "popitem":
                if M:
                    M.popitem()
            elif e[0] == "set":
                M[L(e[1])] = e[2]
            elif e[0] in ("iadd", "isub", "update"):
                d = {L(k): c for k, c in e[1]}
                if e[0] == "iadd":
                    M += d
                elif e[0] == "isub":
                    M -= d
                else:
                    M.update(d)
            elif e[0] == "imul":
                M *= e[1]
            elif e[0] == "imulempty":
                M *= {}
            elif e[0] == "clear":
                M.clear()
            elif e[0] == "delall-nonconst":
                for k in [k for k in M if k]:
                    del M[k]
        r, _w = call(do)
        if isinstance(r, Raised):
            st.outcomes["hist: edit raised %s" % r.kind] += 1
            return
        query("after edit %d" % (n + 1))


def run(ctx):
    ctx.bounds = {"n": N, "histories": {"start": rp.jdict(HIST_START), "edits": HIST_EDITS, "depth": 2, "containers": "every model type, boolean and spin"}, "coefs": COEFS, "offsets": OFFSETS, "max_terms": 3 if ctx.quick else 4, "flip_probabilities": PROBS, "scale_slice": "<=2-term models scaled by 2^-50 and 2^40",
                  "containers": "all of DESIGN 2.4 + permuted raw dicts + raw dicts with repeated labels", "schemes": list(gen.LABELLED_SCHEMES)}
    ctx.rule = "case = (kind, polynomial); each is checked in every container x label scheme x function; non-trivial = at least two non-constant terms"
    ctx.assumptions = ["models are refreshed (anneal_temperature_range reads the cached variable set)"]
    explore_cases(ctx, gen_cases(ctx.tier), check, label="C15")
    explore_cases(ctx, lambda: hist_cases(ctx.tier), check_hist, label="C15 histories")


def replay(case):
    from ..runner import Stats
    st = Stats()
    if case.get("part") == "hist":
        check_hist({k: case[k] for k in ("part", "kind", "container", "edits")}, st)
        return [(s, m) for s, c, m in st.viol]
    check({"kind": case["kind"], "poly": case["poly"], "tier": "thorough"}, st)
    return [(s, m) for s, c, m in st.viol]
