"""C01 -- degree reduction never undercuts the model and is exact on consistent ancillas.

Engine A: all small models with a term of degree >= 3 x {PUBO, PUSO, PCBO, PCSO} x label scheme x
target form x penalty setting x pairs hint; the reduced form D is tabulated over ALL assignments of
model variables and ancillas and compared with the table of M.
"""
import itertools

import numpy as np

from .. import gen, paths
from ..common import call, Raised, short, snap
from ..ref import poly as rp
from ..runner import explore_cases, Stats

ID = "C01"
META = {
    "engine": "smallscope",
    "technique": "exhaustive small-scope enumeration of models x types x targets x penalties x pairs hints; full truth table of the reduced form over model variables and ancillas vs the table of the source",
    "text": "Every model over <=4 variables with <=2 (quick) / <=3 (thorough) terms (one of degree >=3) over {-3,-1,1,2}, as PUBO/PUSO/PCBO/PCSO (PC types also with a "
            "recorded constraint), is reduced with to_qubo/to_quso/to_pubo(deg)/to_puso(deg), deg in {None,2,3}, penalties {default, |v|, 1+|v|, large constant, too-small "
            "constant} and pairs hints {none, every single pair, unknown label}. On the full table of D: degree bound, label discipline (mapping images < n <= ancillas), "
            "exact extension for every x under any penalty, D >= M everywhere for admissible penalties, equal minima, every arg-min converting (real convert_solution, "
            "dict/list/tuple) to an arg-min of M; and for n + a <= 5 convert_solution on every one of the 2^(n+a) assignments of D, with the spin argument left at its "
            "default whenever the assignment itself shows a 0 / -1, must return the first n values in the model's own domain.",
    "note": "Bounded: n<=4, <=9 ancillas, coefficient alphabet; models in refreshed state (C14 covers stale bookkeeping). For the spin route the admissible constant is "
            "sum|coef|*2^deg because the reduced term is a term of the boolean form.",
}

COEFS = (-3, -1, 1, 2)
N = 4
MAX_ANC = 9
ALLCONV_BITS = 5      # convert_solution is called on all 2^(n+a) assignments of D when n + a <= this
TYPES = ("PUBO", "PUSO", "PCBO", "PCSO")
QUICK_SCHEME = {"PUBO": "int", "PUSO": "str", "PCBO": "gap", "PCSO": "tuple"}
PENALTIES = ("default", "abs", "abs+1", "bigconst", "toosmall")


def targets():
    out = [("to_qubo", None), ("to_quso", None)]
    for d in (None, 2, 3):
        out.append(("to_pubo", d))
        out.append(("to_puso", d))
    return out


def gen_cases(tier):
    maxterms = 2 if tier == "quick" else 3

    def it():
        if tier == "quick":
            # three-term models made of high-degree monomials only (ancilla reuse across terms needs three terms)
            for D in gen.polys(N, 3, (1, -2), mindeg=3, minterms=3):
                for typ in ("PUBO", "PUSO"):
                    for rev in (False, True):
                        yield {"poly": rp.jdict(D), "type": typ, "scheme": QUICK_SCHEME[typ], "constraint": 0, "rev": rev}
                    yield {"poly": rp.jdict(D), "type": typ, "scheme": QUICK_SCHEME[typ], "constraint": 0, "rev": False, "perm": 1 if typ == "PUBO" else 2}
        # one variable spelled with equal labels of different types (1 / True / 1.0): two stored keys can denote one monomial
        for D in gen.polys(N, 2 if tier == "quick" else 3, (1, -2), minterms=2, need_deg=3):
            if any(1 in k and 0 in k for k in D):
                for typ in ("PUBO", "PUSO"):
                    yield {"poly": rp.jdict(D), "type": typ, "scheme": "int", "constraint": 0, "rev": False, "mix": True}
        for D in gen.polys(N, maxterms, COEFS, minterms=1, need_deg=3):
            nt = len(D)
            for typ in TYPES:
                if tier == "quick":
                    schemes = (QUICK_SCHEME[typ],)
                elif nt <= 2:
                    schemes = ("int", "str", "gap", "tuple", "mixed", "rstr")
                else:
                    schemes = (QUICK_SCHEME[typ],)
                for sch in schemes:
                    for con in ((0,) if typ in ("PUBO", "PUSO") else ((0, 1) if tier == "quick" or nt > 2 else (0, 1, 2))):
                        yield {"poly": rp.jdict(D), "type": typ, "scheme": sch, "constraint": con, "rev": False}
                        if nt == 1 and con == 0 and sch in ("int", "str", "gap", "tuple"):
                            yield {"poly": rp.jdict(D), "type": typ, "scheme": sch, "constraint": con, "rev": False, "perm": 1 if typ in ("PUBO", "PCSO") else 2}
                        if nt == 2 and con == 0 and (tier != "quick" or sch in ("int", "str")):
                            # same terms inserted in the opposite order (mapping and reduction order follow insertion order)
                            yield {"poly": rp.jdict(D), "type": typ, "scheme": sch, "constraint": con, "rev": True}
    return it


def build_model(case):
    qv = paths.import_qubovert()
    D = gen.relabel(rp.unjdict(case["poly"]), case["scheme"], N)
    if case.get("rev"):
        D = dict(reversed(list(D.items())))
    labels = gen.labels_for(case["scheme"], N)
    if case.get("mix"):
        M = gen.cls(case["type"])()
        for k, v in D.items():
            if 1 in k and len(k) >= 2:
                # the same monomial under two spellings: (True, 0, 2) sorts differently from (0, 1, 2), so both keys are stored
                M[tuple(True if l == 1 else l for l in k)] += v + 1
                M[k] += -1
            else:
                M[k] += v
    else:
        M = gen.build(case["type"], D)
    if case.get("perm"):
        gen.permute_mapping(M, "setmap" if case["perm"] == 1 else "setrev")    # user-chosen enumeration (documented API)
    con = case["constraint"]
    if con == 1:      # constraint without ancilla (sum <= 1 special form adds a quadratic term)
        M.add_constraint_le_zero({(labels[0],): 1, (labels[1],): 1, (): -1}, lam=2)
    elif con == 2:    # constraint with a slack ancilla: '__a0' becomes a model variable
        M.add_constraint_le_zero({(labels[0],): 1, (labels[2],): -1, (labels[3],): 1, (): -1}, lam=2)
    return M


def penalty(kind, total):
    if kind == "default":
        return None
    if kind == "abs":
        return lambda v: abs(v)
    if kind == "abs+1":
        return lambda v: 1 + abs(v)
    if kind == "bigconst":
        return total
    if kind == "toosmall":
        return 0.25
    raise ValueError(kind)


def check(case, st):
    qv = paths.import_qubovert()
    typ = case["type"]
    spin = typ in ("PUSO", "PCSO")
    M = build_model(case)
    before = snap(M)
    mapping = M.mapping
    n = M.num_binary_variables
    if sorted(mapping.values()) != list(range(n)) or set(mapping) != M.variables:
        st.violation("%s|mapping-not-bijection" % typ, case, "C01 %s %s: mapping %r variables %r" % (typ, short(dict(M)), mapping, M.variables))
        return
    inv = {i: l for l, i in mapping.items()}
    mlabels = [inv[i] for i in range(n)]
    Mtab = rp.tt(M, mlabels, spin)          # index bit i <-> mapping image i
    mmin = float(Mtab.min())
    mdeg = max((len(k) for k in M), default=0)
    # a constant that is admissible on both routes (the spin route reduces the boolean form)
    total = sum(abs(v) for v in M.values()) * (2 ** mdeg if spin else 1) + 1
    model_pairs = list(itertools.combinations(mlabels, 2))
    st.nontrivial += 1
    for tname, deg in targets():
        req = 2 if tname in ("to_qubo", "to_quso") else (deg if deg is not None else mdeg)
        tspin = tname in ("to_puso", "to_quso")
        for pk in PENALTIES:
            pair_opts = [None]
            if pk == "default":
                pair_opts += [[p] for p in model_pairs[:6]] + [[(mlabels[0], "unknown-label")]]
                # two disjoint pairs at once: forces two reductions whose ancillas are created in an order
                # that differs from the order in which a later term meets them
                if len(mlabels) >= 4:
                    a_, b_, c_, d_ = mlabels[:4]
                    pair_opts += [[(a_, b_), (c_, d_)], [(a_, c_), (b_, d_)], [(a_, d_), (b_, c_)], [(b_, c_), (a_, d_)]]
            for pairs in pair_opts:
                lam = penalty(pk, total)
                kw = {}
                if lam is not None:
                    kw["lam"] = lam
                if pairs is not None:
                    kw["pairs"] = set(pairs)
                if tname in ("to_pubo", "to_puso"):
                    if deg is not None:
                        kw["deg"] = deg
                st.transitions += 1
                st.traces += 1
                D, _w = call(getattr(M, tname), **kw)

                def v(kind, msg):
                    st.violation("%s|%s(deg=%s)|penalty=%s|pairs=%s|%s" % (typ, tname, deg, pk, "none" if pairs is None else ("unknown" if "unknown-label" in pairs[0] else "hint"), kind),
                                 dict(case, target=tname, deg=deg, penalty=pk, pairs=None if pairs is None else [rp.jkey(p) for p in pairs]),
                                 "C01 %s(%s).%s(%s): %s" % (typ, short(dict(M), 200), tname,
                                                            ", ".join("%s=%s" % (k, "<callable>" if callable(x) else x) for k, x in kw.items()), msg))
                if isinstance(D, Raised):
                    v("raises-" + D.kind, "raised %r" % D.exc)
                    continue
                if snap(M) != before:
                    v("model-mutated", "the model changed")
                    before = snap(M)
                want_type = {"to_qubo": "QUBOMatrix", "to_quso": "QUSOMatrix", "to_pubo": "PUBOMatrix", "to_puso": "PUSOMatrix"}[tname]
                if type(D).__name__ != want_type:
                    v("type", "returned %s" % type(D).__name__)
                    continue
                used = {l for k in D for l in k}
                if any((not isinstance(l, (int, np.integer))) or l < 0 for l in used):
                    v("labels", "labels must be non-negative integers: %r" % sorted(used, key=repr))
                    continue
                ddeg = max((len(k) for k in D), default=0)
                if ddeg > max(req, 0) and ddeg > 0:
                    v("degree", "result has degree %d > requested %d: %s" % (ddeg, req, short(dict(D))))
                    continue
                top = max(used, default=-1)
                a = max(0, top + 1 - n)
                if a > MAX_ANC:
                    st.skipped["more than %d ancillas" % MAX_ANC] += 1
                    continue
                st.outcomes["%s anc=%d" % (tname, a)] += 1
                dlabels = list(range(n + a))
                Dtab = rp.tt(D, dlabels, tspin).reshape(1 << a, 1 << n)
                # (ii) exact extension for every x
                ext = np.abs(Dtab - Mtab[None, :]) <= 1e-9 * (1 + np.abs(Mtab[None, :]))
                bad = np.nonzero(~ext.any(axis=0))[0]
                if len(bad):
                    x = int(bad[0])
                    v("no-exact-extension", "x = %r (M = %r) has no ancilla setting with D = M; D values over ancillas: %s"
                      % (rp.assignment(x, mlabels, spin), Mtab[x], sorted(set(np.round(Dtab[:, x], 6).tolist()))[:8]))
                    continue
                if pk != "toosmall":
                    # (iii) never undercuts
                    under = np.nonzero(Dtab < Mtab[None, :] - 1e-9)
                    if len(under[0]):
                        ai, x = int(under[0][0]), int(under[1][0])
                        v("undercuts", "D = %r < M = %r at x = %r with ancillas %s" % (Dtab[ai, x], Mtab[x], rp.assignment(x, mlabels, spin), bin(ai)))
                        continue
                    # (iv) minima and arg-mins through the real convert_solution
                    if abs(float(Dtab.min()) - mmin) > 1e-9:
                        v("minimum", "min D = %r, min M = %r" % (float(Dtab.min()), mmin))
                        continue
                    args = np.argwhere(np.abs(Dtab - mmin) <= 1e-9)
                    seenx = set()
                    for ai, x in args:
                        ai, x = int(ai), int(x)
                        if x in seenx:
                            continue
                        seenx.add(x)
                        s = rp.assignment(x | (ai << n), dlabels, tspin)
                        want = rp.assignment(x, list(range(n)), spin)
                        want = {inv[i]: val for i, val in want.items()}
                        for cname, sol in (("dict", s), ("list", [s[i] for i in dlabels]), ("tuple", tuple(s[i] for i in dlabels))):
                            r, _w = call(M.convert_solution, sol, tspin)
                            st.transitions += 1
                            if isinstance(r, Raised):
                                v("convert_solution-raises-" + r.kind, "convert_solution(%r, spin=%s) raised %r" % (sol, tspin, r.exc))
                                break
                            if r != want:
                                v("convert_solution", "convert_solution(%r, spin=%s) = %r, expected %r" % (sol, tspin, r, want))
                                break
                            val, _w = call(M.value, r)
                            if isinstance(val, Raised) or abs(val - mmin) > 1e-9:
                                v("argmin-not-argmin", "minimiser %r of D converts to %r with M = %r, min M = %r" % (sol, r, val, mmin))
                                break
                    # (v) convert_solution on EVERY assignment of D (not only arg-mins), with the `spin` argument left at
                    # its default whenever the assignment itself says what it is (a 0 for boolean forms, a -1 for spin forms):
                    # the answer must be the assignment's first n values in the model's own domain
                    if n + a <= ALLCONV_BITS:
                        for bits in range(1 << (n + a)):
                            s = rp.assignment(bits, dlabels, tspin)
                            want = rp.assignment(bits & ((1 << n) - 1), list(range(n)), spin)
                            want = {inv[i]: val for i, val in want.items()}
                            unambiguous = any(val != 1 for val in s.values())
                            r, _w = call(M.convert_solution, s) if unambiguous else call(M.convert_solution, s, tspin)
                            st.transitions += 1
                            if isinstance(r, Raised):
                                v("convert_solution-raises-" + r.kind, "convert_solution(%r) raised %r" % (s, r.exc))
                                break
                            if r != want:
                                v("convert_solution-any-assignment", "convert_solution(%r%s) = %r, expected %r" % (s, "" if unambiguous else ", spin=%s" % tspin, r, want))
                                break
    if case["constraint"] == 0:
        check_again_after_edit(case, st)


def check_again_after_edit(case, st):
    """Convert, change one coefficient in place (the model stays refreshed), convert again: the second form must describe the
    NEW model (nothing may remember the first conversion)."""
    typ = case["type"]
    spin = typ in ("PUSO", "PCSO")
    M = build_model(case)
    for t in ("to_qubo", "to_pubo"):
        call(getattr(M, t))
    k0 = max(M, key=len)
    M[k0] = M[k0] * 2 + 1
    mapping = M.mapping
    n = M.num_binary_variables
    inv = {i: l for l, i in mapping.items()}
    mlabels = [inv[i] for i in range(n)]
    Mtab = rp.tt(M, mlabels, spin)
    for tname in ("to_qubo", "to_quso"):
        tspin = tname == "to_quso"
        D, _w = call(getattr(M, tname))
        st.transitions += 1
        st.traces += 1
        if isinstance(D, Raised):
            continue
        used = {l for k in D for l in k}
        a = max(0, max(used, default=-1) + 1 - n)
        if a > MAX_ANC or any((not isinstance(l, (int, np.integer))) or l < 0 for l in used):
            continue
        Dtab = rp.tt(D, list(range(n + a)), tspin).reshape(1 << a, 1 << n)
        ext = np.abs(Dtab - Mtab[None, :]) <= 1e-9 * (1 + np.abs(Mtab[None, :]))
        if not ext.any(axis=0).all() or (Dtab < Mtab[None, :] - 1e-9).any():
            st.violation("%s|%s|after-in-place-edit|stale-form" % (typ, tname), dict(case, again=True),
                         "C01 %s: after %s(), M[%r] changed in place, %s() again = %s does not describe the edited model %s"
                         % (typ, "to_qubo/to_pubo", k0, tname, short(dict(D), 160), short(dict(M), 160)))


def run(ctx):
    ctx.bounds = {"n": N, "coefs": COEFS, "max_terms": 2 if ctx.quick else 3, "types": TYPES, "targets": [list(t) for t in targets()],
                  "penalties": PENALTIES, "pairs": "none; with the default penalty also each single pair of model variables, a pair with an unknown label, and 4 sets of two disjoint pairs",
                  "quick_extra": "all 3-term models of monomials of degree >= 3 over {1,-2} as PUBO/PUSO (both insertion orders, and with a cyclically shifted user-set mapping); one-term models also with a user-set mapping",
                  "schemes": QUICK_SCHEME if ctx.quick else "all six for <=2 terms, one per type for 3 terms", "max_ancillas": MAX_ANC,
                  "pc_constraints": "none / sum<=1 (no ancilla)" + ("" if ctx.quick else " / slack constraint whose ancilla is a model variable")}
    ctx.rule = "case = (polynomial with a term of degree>=3, type, label scheme, recorded constraint); every target x penalty x pairs inside; all are non-trivial"
    explore_cases(ctx, gen_cases(ctx.tier), check, label="C01")


def replay(case):
    st = Stats()
    check({k: case.get(k) for k in ("poly", "type", "scheme", "constraint", "rev", "perm", "mix")}, st)
    return [(s, m) for s, c, m in st.viol]
