"""C07 -- sat expression builders compute their truth functions.

Engine B, closed under reachability: states are boolean models (type, stored dict) over 2 / 3
variables; transitions apply every gate to every tuple of already discovered states (all unary and
ALL binary applications; n-ary ones on leaves).  A gate's result depends only on its operands'
(type, dict), and there are finitely many boolean functions of 3 variables, so the search reaches a
fixpoint; by induction every expression tree of any depth with gates of arity <= 2 is then covered.
"""
import itertools

import numpy as np

from .. import gen, paths
from ..common import call, Raised, short, snap
from ..ref import poly as rp
from ..runner import pmap, Stats, NWORKERS, HarnessError

ID = "C07"
META = {
    "engine": "histbfs",
    "technique": "explicit-state reachability to a fixpoint over (type, stored polynomial) states under all unary/binary gate applications on the real sat builders; truth-table oracle per transition",
    "text": "Starting from the variable leaves in every operand form (raw label, dict, PUBO, PCBO, PUBOMatrix; QUBO/QUBOMatrix in the 2-variable run), "
            "every gate is applied to every pair of discovered states until no new (type, dict) state appears: all expression trees of ANY depth with gates "
            "of arity <= 2 over 2 variables (quick and thorough) and 3 variables (thorough; quick stops the 3-variable search after 3 rounds = expression depth 3) are covered by induction; 3- and 4-ary applications are enumerated over leaves and "
            "negated leaves. Each application's result table must equal the gate's truth function of the operand tables and operands must be unchanged. "
            "Each gate is also applied once to 5..9 (thorough ..12) DISTINCT variables. Unary and leaf-level applications (thorough: all) are built a second time after the first result was edited in place: same result, operands unmoved.",
    "note": "Bounded: <=3 variables; arity >2 only on leaf-level operands. The closure argument relies on gate results depending only on the operands' (type, dict), "
            "which the search itself validates by rebuilding every state from its witness expression.",
}

RECHECK_ALL = False      # thorough: every application is re-built after its result was edited in place
GATES1 = ["BUFFER", "NOT"]
GATESN = ["AND", "NAND", "OR", "NOR", "XOR", "XNOR"]


def ref_gate(g, tabs):
    tabs = [t.astype(bool) for t in tabs]
    if g in ("AND", "NAND"):
        r = np.logical_and.reduce(tabs)
    elif g in ("OR", "NOR"):
        r = np.logical_or.reduce(tabs)
    elif g in ("XOR", "XNOR"):
        r = np.logical_xor.reduce(tabs)
    else:
        r = tabs[0]
    if g in ("NAND", "NOR", "XNOR", "NOT"):
        r = ~r
    return r.astype(float)


def leaf(form, label):
    qv = paths.import_qubovert()
    if form == "label":
        return label
    if form == "dict":
        return {(label,): 1}
    return gen.cls(form)({(label,): 1})


def build(expr, labels, cache=None):
    """Evaluate a witness expression tree on the real library (no checking)."""
    qv = paths.import_qubovert()
    if expr[0] == "leaf":
        return leaf(expr[1], labels[expr[2]])
    args = [build(e, labels) for e in expr[1:]]
    return getattr(qv.sat, expr[0])(*args)


def table_of(obj, labels):
    if isinstance(obj, dict):
        return rp.tt(obj, labels, False)
    return rp.tt({(obj,): 1}, labels, False)      # a raw label


def state_key(obj):
    if isinstance(obj, dict):
        return (type(obj).__name__, tuple(sorted(((k, float(v)) for k, v in obj.items()), key=repr)))
    return ("label", obj)


def apply_gate(g, exprs, labels, st, cache, recheck=False):
    """Apply gate g to the states denoted by exprs; returns (key, violations)."""
    qv = paths.import_qubovert()
    ops = []
    for e in exprs:
        k = repr(e)
        if k not in cache:
            cache[k] = build(e, labels)
        ops.append(cache[k])
    before = [snap(o) for o in ops]
    for e, o in zip(exprs, ops):
        if isinstance(o, dict) and any(l not in labels for k in o for l in k):
            # an operand built by an inner gate application mentions variables that are not labels of the expression
            return None, [("%s|foreign-variables|arity%d|%s" % (e[0], len(e) - 1, "label"),
                           "C07 %s(...) = %s mentions variables other than the labels %r" % (e[0], short(dict(o), 120), labels))], [g] + list(exprs)
    tabs = [table_of(o, labels) for o in ops]
    want = ref_gate(g, tabs)
    r, _w = call(getattr(qv.sat, g), *ops)
    st.transitions += 1
    st.traces += 1
    viol = []
    expr = [g] + list(exprs)

    def v(kind, msg):
        viol.append(("%s|%s|arity%d|%s" % (g, kind, len(ops), "+".join(sorted({type(o).__name__ if isinstance(o, dict) else "label" for o in ops}))),
                     "C07 %s(%s): %s" % (g, ", ".join(short(dict(o), 80) if isinstance(o, dict) else repr(o) for o in ops), msg)))
    if isinstance(r, Raised):
        v("raises-" + r.kind, "raised %r" % r.exc)
        return None, viol, expr
    if not isinstance(r, dict) or any(l not in labels for k in r for l in k):
        v("result", "returned %s" % short(r))
        return None, viol, expr
    got = rp.tt(r, labels, False)
    if not rp.tables_equal(got, want):
        a = rp.first_diff(got, want)
        v("truth-table", "result %s evaluates to %r at %r, expected %r" % (short(dict(r)), got[a], rp.assignment(a, labels, False), want[a]))
    if [snap(o) for o in ops] != before:
        v("operand-mutated", "an operand was modified")
        for e in exprs:
            cache.pop(repr(e), None)
    if any(r is o for o in ops):
        v("aliased-result", "the result is one of the operands (not a new model)")
    if not viol and recheck:
        # the result belongs to the caller: edit it in place (the usual `H = OR(a); H += ...; H *= 3` idiom), then build the same
        # expression again -- it must come out as before, and the operands must not have moved
        first = snap(r)
        r2, _w = call(lambda: (r.__iadd__(getattr(qv.sat, "AND")(*labels[:2])), r.__imul__(3), r.__setitem__((labels[0],), 7)))
        again, _w = call(getattr(qv.sat, g), *ops)
        st.transitions += 1
        if isinstance(again, Raised) or snap(again) != first:
            v("stale-after-result-edited", "after the first result was edited in place, building the same expression again gives %s instead of %s"
              % (short(again if isinstance(again, Raised) else dict(again)), short(first)))
        if [snap(o) for o in ops] != before:
            v("operand-mutated", "an operand changed when the RESULT was edited in place")
            for e in exprs:
                cache.pop(repr(e), None)
    return (state_key(r) if not viol else None), viol, expr


def closure(ctx, nvars, scheme, forms, label, max_rounds=None):
    labels = gen.labels_for(scheme, nvars)
    st = ctx.stats
    # level 0: leaves
    states = {}           # key -> witness expression
    order = []
    for form in forms:
        for i in range(nvars):
            e = ["leaf", form, i]
            k = state_key(leaf(form, labels[i]))
            if k not in states:
                states[k] = e
                order.append(k)
    st.states += len(order)
    new = list(order)
    old = []
    rounds = 0
    while new:
        if max_rounds is not None and rounds >= max_rounds:
            ctx.log("%s: stopped after %d rounds with %d unexpanded states (quick tier; the thorough tier runs to the fixpoint)" % (label, rounds, len(new)))
            st.extra.setdefault("closures", {})[label + " (depth-bounded)"] = {"rounds": rounds, "unexpanded_states": len(new)}
            break
        rounds += 1
        tasks = []
        for k in new:
            tasks.append(("u", k, None))
        for a in new:
            for b in old + new:
                tasks.append(("b", a, b))
        for a in old:
            for b in new:
                tasks.append(("b", a, b))
        nch = NWORKERS * 8
        chunks = [tasks[i::nch] for i in range(nch)]
        wit = states

        def work(chunk):
            ws = Stats()
            cache = {}
            found = {}
            for t in chunk:
                if t[0] == "u":
                    apps = [(g, [wit[t[1]]]) for g in GATES1 + GATESN]
                else:
                    apps = [(g, [wit[t[1]], wit[t[2]]]) for g in GATESN]
                for g, exprs in apps:
                    k, viol, expr = apply_gate(g, exprs, labels, ws, cache,
                                               recheck=RECHECK_ALL or len(exprs) == 1 or all(e[0] == "leaf" for e in exprs))
                    ws.evaluations += 1
                    for sig, msg in viol:
                        ws.violation(sig, {"nvars": nvars, "scheme": scheme, "expr": expr}, msg)
                    if k is not None and k not in wit and k not in found:
                        found[k] = expr
            return ws, found

        res = pmap(work, [c for c in chunks if c])
        old = old + new
        new = []
        for ws, found in res:
            st.merge(ws)
            for k, e in found.items():
                if k not in states:
                    states[k] = e
                    new.append(k)
        st.states += len(new)
        ctx.log("%s round %d: +%d states (total %d), transitions so far %d" % (label, rounds, len(new), len(states), st.transitions))
    # every discovered state denotes a function; count distinct functions per type
    funcs = {}
    for k in states:
        if k[0] == "label":
            continue
        d = dict(k[1])
        funcs.setdefault(k[0], set()).add(tuple(rp.tt(d, labels, False).tolist()))
    st.extra.setdefault("closures", {})[label] = {"rounds_to_fixpoint": rounds, "states": len(states),
                                                 "distinct_functions_per_type": {t: len(s) for t, s in funcs.items()}}
    st.nontrivial += sum(1 for k in states if k[0] != "label" and len(k[1]) >= 2)
    for k in list(states)[-3:]:
        st.sample({"nvars": nvars, "scheme": scheme, "expr": states[k]}, 6)
    return states


def nary(ctx, nvars, scheme, forms, label):
    """3- and 4-ary applications over leaves (all forms) resp. over raw and negated labels."""
    labels = gen.labels_for(scheme, nvars)
    leaves = [["leaf", f, i] for f in forms for i in range(nvars)]
    small = [["leaf", "label", i] for i in range(nvars)] + [["NOT", ["leaf", "label", i]] for i in range(nvars)]
    tasks = [(g, list(c)) for g in GATESN for c in itertools.product(leaves, repeat=3)]
    tasks += [(g, list(c)) for g in GATESN for c in itertools.product(small, repeat=4)]
    nch = NWORKERS * 4

    def work(chunk):
        ws = Stats()
        cache = {}
        for g, exprs in chunk:
            k, viol, expr = apply_gate(g, exprs, labels, ws, cache, recheck=True)
            ws.evaluations += 1
            ws.states += 1
            for sig, msg in viol:
                ws.violation(sig, {"nvars": nvars, "scheme": scheme, "expr": expr}, msg)
        return ws
    for ws in pmap(work, [tasks[i::nch] for i in range(nch)]):
        ctx.stats.merge(ws)
    ctx.log("%s: %d n-ary applications" % (label, len(tasks)))


def wide(ctx):
    """One gate over many DISTINCT variables (an operand that only its own variable makes true is visible only then):
    arities 5..9 (quick) / 5..12 (thorough; XOR / XNOR up to 9: their PUBO has 2^n terms), labels and one-variable PUBOs."""
    amax = 9 if ctx.quick else 12
    tasks = [(g, n, form) for g in GATESN for n in range(5, amax + 1) for form in ("label", "PUBO") if not (g in ("XOR", "XNOR") and n > 9)]

    def work(t):
        g, n, form = t
        ws = Stats()
        labels = ["v%d" % i for i in range(n)]
        exprs = [["leaf", form, i] for i in range(n)]
        k, viol, expr = apply_gate(g, exprs, labels, ws, {}, recheck=False)
        ws.evaluations += 1
        ws.states += 1
        ws.nontrivial += 1
        for sig, msg in viol:
            ws.violation(sig, {"part": "wide", "gate": g, "arity": n, "form": form}, msg)
        return ws
    for ws in pmap(work, tasks):
        ctx.stats.merge(ws)
    ctx.log("wide gates: %d applications with 5..%d distinct variables" % (len(tasks), amax))


def run(ctx):
    global RECHECK_ALL
    RECHECK_ALL = not ctx.quick
    runs = [(2, "int", ["label", "dict", "PUBO", "PCBO", "PUBOMatrix", "QUBO", "QUBOMatrix"], "2var-int"),
            (2, "str", ["label", "dict", "PUBO", "PCBO", "QUBO"], "2var-str"),
            (2, "tuple", ["label", "dict", "PUBO", "PCBO"], "2var-tuple-labels"),
            (2, "bool", ["label", "dict", "PUBO"], "2var-bool-labels")]
    if not ctx.quick:
        runs += [(3, "int", ["label", "dict", "PUBO", "PCBO", "PUBOMatrix"], "3var-int"),
                 (3, "rstr", ["label", "dict", "PUBO", "PCBO"], "3var-rstr")]
    else:
        runs += [(3, "str", ["label"], "3var-str-labels-only-3-rounds")]
    ctx.bounds = {"closures": [{"variables": r[0], "labels": r[1], "leaf_forms": r[2]} for r in runs],
                  "gates": GATES1 + GATESN, "arity": "1 and 2 closed under reachability; 3 over all leaves; 4 over labels and negated labels; 5..%d over that many distinct variables" % (9 if ctx.quick else 12)}
    ctx.rule = ("state = (type, stored dict); all unary and binary gate applications over all pairs of discovered states until fixpoint; "
                "non-trivial = state with >= 2 terms")
    for nvars, scheme, forms, label in runs:
        closure(ctx, nvars, scheme, forms, label, max_rounds=3 if (ctx.quick and nvars == 3) else None)
        nary(ctx, nvars, scheme, forms if nvars == 2 or not ctx.quick else ["label"], label + "-nary")
    wide(ctx)
    ctx.exhaustive = True


def replay(case):
    if case.get("part") == "wide":
        n = case["arity"]
        st = Stats()
        k, viol, _ = apply_gate(case["gate"], [["leaf", case["form"], i] for i in range(n)], ["v%d" % i for i in range(n)], st, {}, recheck=False)
        return viol
    """Re-evaluate the expression bottom-up, checking the oracle at every node."""
    labels = gen.labels_for(case["scheme"], case["nvars"])
    out = []

    def walk(expr):
        if expr[0] == "leaf":
            return
        for e in expr[1:]:
            walk(e)
        st = Stats()
        k, viol, _ = apply_gate(expr[0], expr[1:], labels, st, {}, recheck=True)
        out.extend(viol)
    walk(case["expr"])
    # report innermost first; duplicates removed
    seen = set()
    res = []
    for s, m in out:
        if (s, m) not in seen:
            seen.add((s, m))
            res.append((s, m))
    return res
