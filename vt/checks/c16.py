"""C16 -- symbolic coefficients commute with substitution.

Engine A: every constraint method / reduced form built once with a sympy Symbol as weight and once with
each number c; built(Symbol).subs({s: c}) must equal built(c) (type, coefficients, recorded constraints).
"""
import itertools

from .. import gen, paths, constraints as cs
from ..common import call, Raised, short, snap
from ..ref import poly as rp
from ..runner import explore_cases, Stats

ID = "C16"
META = {
    "engine": "smallscope",
    "technique": "exhaustive small-scope enumeration of constraint polynomials x methods x options (and of reducible models x target forms), differential comparison of symbolic-then-substituted against numerically built models",
    "text": "For PCBO and PCSO: every comparison method x every constraint polynomial with <=3 variables and <=1 (quick) / <=2 (thorough) terms over {-2,-1,1,2}, offsets -2..2, log_trick both, bounds "
            "omitted/exact; every logical method on label operands up to arity 3; and to_qubo/to_quso/to_pubo(2)/to_puso(2) with a symbolic penalty on every model over 4 variables with one (quick) / "
            "<=2 (thorough) terms of which one has degree>=3, as PUBO/PUSO/PCBO/PCSO. For c in {1, 2.5, 0.75, 2}: subs(symbol->c) of the symbolic build equals the numeric build in type, coefficients "
            "(1e-9) and recorded constraints, and subs leaves the symbolic original unchanged.",
    "note": "Bounded as listed. The main parts make only the weight symbolic (as the statement says); one slice also puts the symbol inside the objective and the constraint polynomial, "
            "as a bare symbol and as w - 3, 2w, -w (recorded constraints must be substituted too).",
}

CS = (1, 2.5, 0.75, 2)      # 2: the weight at which lam / 2 == 1 (scalar shortcuts)
N = 3
GATES = ["AND", "OR", "XOR", "NAND", "NOR", "XNOR"]


def gen_cases(tier):
    quick = tier == "quick"

    def it():
        for spin in (False, True):
            for D in gen.polys(N, 1 if quick else 2, cs.COEFS, offsets=cs.OFFSETS):
                yield {"part": "cmp", "spin": spin, "poly": rp.jdict(D)}
            if quick:
                for D in gen.polys(N, 2, (-1, 2), offsets=(0, -1), minterms=2):
                    yield {"part": "cmp", "spin": spin, "poly": rp.jdict(D)}
        for g in GATES:
            for n in (1, 2, 3):
                for ops in itertools.product(range(4), repeat=n):
                    yield {"part": "log", "gate": g, "eq": False, "operands": list(ops)}
            for n in ((1, 2) if g in ("XOR", "XNOR") else (2,)):
                for ops in itertools.product(range(4), repeat=n + 1):
                    yield {"part": "log", "gate": g, "eq": True, "operands": list(ops)}
        for g in ("NOT", "BUFFER"):
            for a in range(4):
                yield {"part": "log", "gate": g, "eq": False, "operands": [a]}
                for b in range(4):
                    yield {"part": "log", "gate": g, "eq": True, "operands": [a, b]}
        # the symbol as a weight INSIDE the objective and the constraint polynomial (explicit bounds; coefficients chosen so
        # that no special-form recogniser can tell the symbolic from the numeric build)
        for spin in (False, True):
            for rel in cs.RELS:
                for lt in (True, False):
                    # ... as a bare symbol and inside compound expressions (never zero for the substituted values)
                    for coef in INNER_COEFS:
                        yield {"part": "inner", "spin": spin, "rel": rel, "log_trick": lt, "coef": coef}
        # two constraints of (possibly) different kinds on one model: the recorded constraints are kept per kind
        for spin in (False, True):
            for r1 in cs.RELS:
                for r2 in cs.RELS:
                    yield {"part": "twokinds", "spin": spin, "rels": [r1, r2]}
        # the weight applied through arithmetic: weight * (model that already carries constraints), in every operator form
        for spin in (False, True):
            for rel in cs.RELS:
                for form in ("mul", "rmul", "mul-add", "imul", "add-mul"):
                    yield {"part": "scaled", "spin": spin, "rel": rel, "form": form}
        for D in gen.polys(4, 1 if quick else 2, (-3, 1, 2), minterms=1, need_deg=3):
            for typ in ("PUBO", "PUSO", "PCBO", "PCSO"):
                yield {"part": "red", "type": typ, "poly": rp.jdict(D)}
    return it


INNER_COEFS = {"w": lambda w: w, "w-3": lambda w: w - 3, "2w": lambda w: 2 * w, "-w": lambda w: -w}


def same_model(a, b):
    """None if equal, else a description."""
    if type(a) is not type(b):
        return "type %s vs %s" % (type(a).__name__, type(b).__name__)
    ka, kb = set(a.keys()), set(b.keys())
    if ka != kb:
        return "keys differ: only in substituted %s, only in numeric %s" % (sorted(ka - kb, key=repr)[:4], sorted(kb - ka, key=repr)[:4])
    for k in ka:
        try:
            va, vb = float(a[k]), float(b[k])
        except TypeError:
            return "coefficient of %r is still symbolic: %r" % (k, a[k])
        if abs(va - vb) > 1e-9 * (1 + abs(vb)):
            return "coefficient of %r: %r vs %r" % (k, va, vb)
    ca, cb = getattr(a, "constraints", None), getattr(b, "constraints", None)
    if (ca is None) != (cb is None):
        return "constraints attribute differs"
    if ca is not None:
        if set(ca) != set(cb):
            return "constraint kinds %r vs %r" % (sorted(ca), sorted(cb))
        for k in ca:
            if len(ca[k]) != len(cb[k]):
                return "number of %s constraints %d vs %d" % (k, len(ca[k]), len(cb[k]))
            for pa, pb in zip(ca[k], cb[k]):
                if type(pa) is not type(pb) or dict(pa) != dict(pb):
                    return "recorded %s constraint %r vs %r" % (k, dict(pa), dict(pb))
    return None


def compare(st, case, what, build, sig):
    import sympy
    s = sympy.Symbol("lam")
    st.transitions += 1
    st.traces += 1
    sym, _w = call(build, s)

    def v(kind, msg, c=None):
        st.violation("%s|%s" % (sig, kind), dict(case, c=c), "C16 %s: %s" % (what, msg))
    if isinstance(sym, Raised):
        v("symbolic-build-raises-" + sym.kind, "building with a Symbol raised %r" % sym.exc)
        return
    before = snap(sym)
    for c in CS:
        st.transitions += 2
        st.traces += 2
        num, _w = call(build, c)
        if isinstance(num, Raised):
            v("numeric-build-raises-" + num.kind, "building with %r raised %r" % (c, num.exc), c)
            continue
        sub, _w = call(sym.subs, {s: c})
        if isinstance(sub, Raised):
            v("subs-raises-" + sub.kind, "subs({lam: %r}) raised %r" % (c, sub.exc), c)
            continue
        diff = same_model(sub, num)
        if diff:
            v("differs", "subs(lam -> %r) of the symbolic build differs from the numeric build: %s\n      symbolic: %s\n      numeric:  %s"
              % (c, diff, short(dict(sym), 300), short(dict(num), 300)), c)
        if snap(sym) != before:
            v("subs-mutates", "subs changed the symbolic original", c)
            before = snap(sym)
        if c == CS[0] and not diff:
            # the other calling conventions of sympy's subs (the docstring promises the same parameters): (old, new) and an iterable of pairs
            for fname, fargs in (("subs(symbol, c)", (s, c)), ("subs([(symbol, c)])", ([(s, c)],)), ("subs(((symbol, c),))", (((s, c),),))):
                st.transitions += 1
                alt, _w = call(sym.subs, *fargs)
                if isinstance(alt, Raised):
                    v("subs-form-raises-" + alt.kind, "%s raised %r" % (fname, alt.exc), c)
                else:
                    d2 = same_model(alt, num)
                    if d2:
                        v("subs-form-differs", "%s differs from subs({symbol: c}) / the numeric build: %s" % (fname, d2), c)
        # subs on a model without any symbol left must also return an independent, equal model
        if c == CS[0] and not isinstance(num, Raised):
            nb = snap(num)
            nsub, _w = call(num.subs, {s: c})
            if isinstance(nsub, Raised):
                v("subs-raises-" + nsub.kind, "subs on the numeric build raised %r" % nsub.exc, c)
            else:
                d2 = same_model(nsub, num)
                if d2:
                    v("numeric-subs-differs", "subs on a model without symbols changed it: %s" % d2, c)
                elif nsub is num:
                    v("subs-returns-self", "subs on a model without symbols returned the model itself (later changes to the result change the original)", c)
                else:
                    def touch(H):
                        H[(next(iter(H.variables), "a"), "extra-label")] += 1
                        for kind in list(getattr(H, "constraints", {})):
                            getattr(H, "add_constraint_%s_zero" % kind)({("extra-label",): 1}, lam=0)
                    call(touch, nsub)
                    if snap(num) != nb:
                        v("subs-aliases-original", "changing the model returned by subs on a numeric model changed the original", c)
        # "subs leaves the original unchanged", also under any later use of the result: extend the substituted model with
        # one more recorded constraint of every kind it has, and a new term
        if not diff and hasattr(sub, "constraints") and c == CS[0]:
            kinds = list(sub.constraints)
            lab = next(iter(sub.variables), "a")

            def extend(H):
                for kind in kinds:
                    getattr(H, "add_constraint_%s_zero" % kind)({(lab,): 1}, lam=0)
                H[(lab, "extra-label")] += 1
            r, _w = call(extend, sub)
            if snap(sym) != before:
                v("subs-aliases-original", "extending the model returned by subs (another %s constraint) changed the symbolic original" % kinds, c)
                sym, _w = call(build, s)
                before = snap(sym)
            sub2, _w = call(sym.subs, {s: c})
            if not isinstance(sub2, Raised):
                b2 = snap(sub2)
                call(extend, sym)
                if snap(sub2) != b2:
                    v("subs-aliases-original", "extending the symbolic original changed a model returned earlier by subs", c)
                sym, _w = call(build, s)
                before = snap(sym)
    st.outcomes[sig.split("|")[0]] += 1


def check(case, st):
    qv = paths.import_qubovert()
    part = case["part"]
    if part == "cmp":
        spin = case["spin"]
        Model = qv.PCSO if spin else qv.PCBO
        D = gen.relabel(rp.unjdict(case["poly"]), "str", N)
        labels = gen.labels_for("str", N)
        t = rp.tt(D, labels, spin)
        lo, hi = float(t.min()), float(t.max())
        st.nontrivial += 1 if len(D) - (() in D) else 0
        for rel in cs.RELS:
            for lt in ((True, False) if rel != "eq" else (True,)):
                for bk in ("omitted", "exact"):
                    def build(lam, rel=rel, lt=lt, bk=bk):
                        H = Model({(labels[0],): 1})
                        kw = {"lam": lam, "suppress_warnings": True}
                        if bk == "exact":
                            kw["bounds"] = (lo, hi)
                        if rel != "eq":
                            kw["log_trick"] = lt
                        getattr(H, "add_constraint_%s_zero" % rel)(dict(D), **kw)
                        return H
                    compare(st, case, "%s.add_constraint_%s_zero(%s, lam, log_trick=%s, bounds=%s)" % (Model.__name__, rel, D, lt, bk),
                            build, "%s.%s|log_trick=%s|bounds=%s" % (Model.__name__, rel, lt, bk))
    elif part == "inner":
        spin = case["spin"]
        Model = qv.PCSO if spin else qv.PCBO
        rel, lt = case["rel"], case["log_trick"]
        st.nontrivial += 1

        f = INNER_COEFS[case.get("coef", "w")]

        def build(w0):
            w = f(w0)
            H = Model({("a",): w, ("a", "b"): -2, (): 1})
            kw = {"lam": 2, "bounds": (-9, 9), "suppress_warnings": True}
            if rel != "eq":
                kw["log_trick"] = lt
            getattr(H, "add_constraint_%s_zero" % rel)({("a",): w, ("b",): -2, ("c",): 3, (): -1}, **kw)
            return H
        compare(st, case, "%s with the symbol as coefficient of the objective and of the %s-constraint polynomial (bounds given)" % (Model.__name__, rel),
                build, "%s.%s|symbol-in-polynomial|log_trick=%s|coef=%s" % (Model.__name__, rel, lt, case.get("coef", "w")))
    elif part == "twokinds":
        spin, (r1, r2) = case["spin"], case["rels"]
        Model = qv.PCSO if spin else qv.PCBO
        st.nontrivial += 1

        def build(w):
            H = Model({("a", "b"): 1, ("c",): -1})
            getattr(H, "add_constraint_%s_zero" % r1)({("a",): 1, ("b",): 1, ("c",): -1}, lam=w)
            getattr(H, "add_constraint_%s_zero" % r2)({("b",): 2, ("c",): 1, ("d",): -3, (): 1}, lam=w)
            return H
        compare(st, case, "%s with a %s- and a %s-constraint, both weighted by the symbol" % (Model.__name__, r1, r2), build,
                "%s.%s+%s|two-constraints" % (Model.__name__, r1, r2))
    elif part == "scaled":
        spin, rel, form = case["spin"], case["rel"], case["form"]
        Model = qv.PCSO if spin else qv.PCBO
        st.nontrivial += 1

        def build(w):
            C = Model({("a", "b"): 1, ("c",): -1})
            getattr(C, "add_constraint_%s_zero" % rel)({("a",): 1, ("b",): -2, ("c",): 1, (): -1}, lam=1)
            O = Model({("a",): 2, ("b", "c"): -1, (): 0.5})
            if form == "mul":
                return C * w
            if form == "rmul":
                return w * C
            if form == "mul-add":
                return w * C + O
            if form == "imul":
                C *= w
                return C
            return (C + O) * w
        compare(st, case, "%s: weight applied by arithmetic (%s) to a model carrying a %s-constraint" % (Model.__name__, form, rel),
                build, "%s.%s|scaled-%s" % (Model.__name__, rel, form))
    elif part == "log":
        labels = gen.labels_for("str", 4)
        meth = "add_constraint_%s%s" % ("eq_" if case["eq"] else "", case["gate"])
        args = [labels[i] for i in case["operands"]]
        st.nontrivial += 1

        def build(lam):
            H = qv.PCBO({(labels[0], labels[1]): -1})
            getattr(H, meth)(*args, lam=lam)
            return H
        compare(st, case, "PCBO.%s(%s, lam)" % (meth, args), build, "PCBO.%s|arity%d" % (meth, len(args)))
    else:
        typ = case["type"]
        D = gen.relabel(rp.unjdict(case["poly"]), "str", 4)
        st.nontrivial += 1
        for tname, kw in (("to_qubo", {}), ("to_quso", {}), ("to_pubo", {"deg": 2}), ("to_puso", {"deg": 2})):
            def build(lam, tname=tname, kw=kw):
                M = gen.build(typ, D)
                return getattr(M, tname)(lam=lam, **kw)
            compare(st, case, "%s(%s).%s(lam, %s)" % (typ, D, tname, kw), build, "%s.%s" % (typ, tname))


def run(ctx):
    ctx.bounds = {"substituted_values": CS, "comparison": "polys over 3 variables, <=%s terms, coefs %s, offsets %s, 6 relations, log_trick both, bounds omitted/exact, PCBO and PCSO"
                  % ("1 (+ two-term over {-1,2})" if ctx.quick else 2, cs.COEFS, cs.OFFSETS),
                  "symbol_inside_polynomial": "one objective + constraint polynomial with the symbol as a coefficient, 6 relations x log_trick, PCBO and PCSO (goes beyond the statement, which speaks of weights)",
                  "logical": "16 methods, label operands from 4 labels with repetition, arity <= 3",
                  "reduction": "models over 4 variables with %s terms (one of degree >= 3) over {-3,1,2}; PUBO/PUSO/PCBO/PCSO; to_qubo, to_quso, to_pubo(2), to_puso(2)" % ("1" if ctx.quick else "<=2")}
    ctx.rule = "case = one constraint polynomial / one logical call / one reducible model; every method and option inside, each with 3 substituted values; non-trivial = not a constant polynomial"
    explore_cases(ctx, gen_cases(ctx.tier), check, label="C16")


def replay(case):
    st = Stats()
    check({k: v for k, v in case.items() if k != "c"}, st)
    return [(s, m) for s, c, m in st.viol]
