"""C05 -- model arithmetic and evaluation agree with polynomial arithmetic.

Engine B over expression trees: a state is a model value reached by a history
[leaf, op, op, ...]; each op combines the current value with a leaf operand (model in any
container, raw dict, number) in forward, reflected or in-place form.  Every transition is
checked against pointwise arithmetic on reference truth tables, and the stored dict against
the canonical multilinear form recovered from the reference table.
"""
import numpy as np

from .. import gen, paths
from ..common import call, Raised, short, snap
from ..histbfs import bfs
from ..ref import poly as rp
from ..runner import explore_cases, Stats

ID = "C05"
META = {
    "engine": "histbfs",
    "technique": "explicit-state BFS over expression trees (operator x operand container x forward/reflected/in-place) on real model objects, truth-table + canonical-form oracle per transition",
    "text": "From every leaf polynomial in every model container, all operator applications (+ - * with model/dict/number operands in forward, reflected "
            "and in-place form, ** k, unary +/-, / c) are explored breadth-first to depth 2 (quick) / 3 (thorough) with states deduplicated by (type, stored "
            "dict); each transition is compared pointwise with the reference tables, the stored dict must equal the canonical multilinear form, operands of "
            "non-in-place operators must be unchanged, in-place operators must return self, degree-2 types must raise KeyError exactly when allowed. The "
            "four *_value functions and .value are checked on every leaf and assignment (dict and sequence).",
    "note": "Bounded: 3 variables, leaves of DESIGN 3/C05, |coefficient| <= 64, expression depth 2/3 (left/right-deep: one side of every operator is a leaf). "
            "Formal-only degree overflow in degree-2 types may either raise KeyError or succeed.",
}

NUMBERS = (0, 1, -2, 0.5)
DIVS = (2, -4, 0.5)
COEF_BOUND = 64
SCHEMES = ("int", "rstr", "tuple")     # tuple-typed labels: first level of operator applications only

# leaves over indices 0,1,2 (model leaves are canonical; the raw spelling is dict-only)
LEAVES = [
    {},
    {(): 2},
    {(0,): 1},
    {(0,): 1, (): 1},
    {(0,): 1, (1,): -1},
    {(0, 1): 2, (0,): -1},
    {(0, 1): 1, (1, 2): 1},
    {(0, 1, 2): 1, (2,): -2},
]
RAW_BOOL = {(1, 0): 1, (0, 0): -1, (0, 1, 0): 2}
RAW_SPIN = {(1, 0): 1, (0, 0): -1, (0, 1, 0): 2, (2, 2, 2): 1}
# a squared label that the other operand may never have seen, on terms it may already hold (z0 z2^2 = z0)
RAW2 = {(0, 2, 2): 2, (1, 2, 2): 3, (1, 1): -1}


def containers(kind):
    return [c for c in (gen.SPIN_CONTAINERS if kind == "spin" else gen.BOOL_CONTAINERS)]


def leaf_dict(kind, idx):
    if idx == "raw":
        return RAW_SPIN if kind == "spin" else RAW_BOOL
    if idx == "raw2":
        return RAW2
    return LEAVES[idx]


def leaf_ok(cont, D):
    if cont in gen.DEG2 and max((len(set(k)) for k in D), default=0) > 2:
        return False
    return True


def make_leaf(kind, scheme, cont, idx):
    D = gen.relabel(leaf_dict(kind, idx), scheme, 3)
    return gen.build(cont, D), D


def operand_menu(kind, scheme):
    out = [["num", v] for v in NUMBERS]
    for cont in containers(kind):
        if cont in gen.MATRIX and scheme != "int":
            continue
        for i, D in enumerate(LEAVES):
            if leaf_ok(cont, D):
                out.append(["leaf", cont, i])
    out.append(["leaf", "dict", "raw"])
    out.append(["leaf", "dict", "raw2"])
    return out


def op_menu(kind, scheme):
    ops = []
    for o in operand_menu(kind, scheme):
        for name in ("add", "sub", "mul"):
            for variant in ("fwd", "refl", "inplace"):
                ops.append(["bin", name, variant, o])
    for name in ("add", "sub", "mul"):
        for variant in ("fwd", "inplace"):
            ops.append(["bin", name, variant, ["self"]])      # a + a, a -= a, a *= a: both operands are the same object
    for k in (1, 2, 3, 4, 5):
        ops.append(["pow", k, False])
    ops.append(["pow", 2, True])
    for k in (0, -1, 1.5):
        ops.append(["badpow", k])
    ops += [["neg"], ["pos"]]
    for c in DIVS:
        ops.append(["div", c, False])
        ops.append(["div", c, True])
    return ops


_MENUS = {}


def roots():
    out = []
    for kind in ("bool", "spin"):
        for scheme in SCHEMES:
            for cont in containers(kind):
                if cont == "dict" or (cont in gen.MATRIX and scheme != "int"):
                    continue
                for i, D in enumerate(LEAVES):
                    if leaf_ok(cont, D):
                        out.append(["leaf", kind, scheme, cont, i])
    return out


def enabled(hist, r):
    if not hist:
        return roots()
    kind, scheme = hist[0][1], hist[0][2]
    if scheme == "tuple" and len(hist) >= 2:
        return []
    if (kind, scheme) not in _MENUS:
        _MENUS[(kind, scheme)] = op_menu(kind, scheme)
    return _MENUS[(kind, scheme)]


def formal_degree(D):
    return max((len(set(k)) for k in D), default=0)


def squashed_len(k, spin):
    if spin:
        return sum(1 for l in set(k) if k.count(l) % 2)
    return len(set(k))


def product_overflows(A, B, spin):
    """True if some term-by-term product key of A x B denotes more than two variables after squashing
    (x*x = x for booleans, z*z = 1 for spins), i.e. a degree-2 type cannot even hold the intermediate term."""
    for ka in A:
        for kb in B:
            if squashed_len(tuple(ka) + tuple(kb), spin) > 2:
                return True
    return False


def _scale(obj, table):
    """Magnitude against which rounding errors of this result are measured: chained products (x ** 5 ** 5) produce coefficients
    of 1e9 that cancel to small values, and quotients produce tables of 1e-5; an elementwise or absolute tolerance is wrong for both."""
    m = float(np.max(np.abs(table))) if len(table) else 0.0
    for v in obj.values():
        try:
            m = max(m, abs(float(v)))
        except (TypeError, ValueError):
            pass
    return m


def values_equal(obj, got_table, table):
    sc = _scale(obj, table)
    if sc == 0:
        return bool(np.all(np.asarray(got_table) == 0))
    return bool(np.all(np.abs(np.asarray(got_table, dtype=float) - np.asarray(table, dtype=float)) <= 1e-9 * sc))


def canon_check(obj, table, labels, spin):
    """Stored dict must be the canonical multilinear form of the table: sorted keys, no repeats, no zeros.  Coefficients are
    compared relative to the magnitude of the result; a stored coefficient at rounding-noise level is not a zero."""
    sc = _scale(obj, table)
    c = rp.walsh(table) if spin else rp.moebius(table)
    want = {}
    for m in range(len(c)):
        k = tuple(labels[j] for j in range(len(labels)) if (m >> j) & 1)
        want[tuple(sorted(k, key=lambda x: (str(type(x)), x)))] = float(c[m])
    got = dict(obj)
    noise = 1e-9 * sc
    zero = [k for k, v in got.items() if v == 0]
    if zero:
        return "zero coefficient stored under %r" % (zero[0],)
    extra = [k for k in got if k not in want]
    if extra:
        return "stored key %r is not a canonical key (sorted, no repeated label)" % (extra[0],)
    missing = [k for k, v in want.items() if k not in got and abs(v) > noise]
    if missing:
        return "stored keys %s lack the canonical key %r (coefficient %r)" % (sorted(got, key=repr), missing[0], want[missing[0]])
    for k in got:
        if abs(got[k] - want[k]) > noise:
            return "coefficient of %r is %r, canonical %r" % (k, got[k], want[k])
    return None


def step(hist):
    if not hist:
        return {"key": ("root",), "viol": [], "expand": True}
    qv = paths.import_qubovert()
    _, kind, scheme, cont, idx = hist[0]
    spin = kind == "spin"
    labels = gen.labels_for(scheme, 3)
    cur, D = make_leaf(kind, scheme, cont, idx)
    table = rp.tt(D, labels, spin)
    viol = []
    dead = False
    deg2 = cont in gen.DEG2

    for n, op in enumerate(hist[1:]):
        last = n == len(hist) - 2
        vv = []
        cur_before = snap(cur)
        cur_type = type(cur).__name__
        cur_deg2 = cur_type in gen.DEG2
        selfdeg = formal_degree(cur)

        def v(kind_, msg, op=op):
            vv.append(("%s|%s|%s" % (_opclass(op), kind_, cur_type), "C05 history %s: %s" % (hist[:n + 2], msg)))

        res = None
        ref = None
        may_raise = False
        must_be_same_obj = False
        expect_types = (cur_type,)
        operand = None
        operand_before = None
        if op[0] == "bin":
            _, name, variant, od = op
            if od[0] == "num":
                operand = od[1]
                oref = np.full(8, float(od[1]))
                odeg = 0
                otype = None
            elif od[0] == "self":
                operand = cur
                oref = table.copy()
                odeg = selfdeg
                otype = cur_type
            else:
                operand, OD = make_leaf(kind, scheme, od[1], od[2])
                oref = rp.tt(OD, labels, spin)
                odeg = formal_degree(OD)
                otype = type(operand).__name__ if od[1] != "dict" else None
            operand_before = snap(operand) if operand is not cur else None
            if name == "add":
                ref = table + oref
            elif name == "sub":
                ref = table - oref if variant != "refl" else oref - table
            else:
                ref = table * oref
            left_is_operand = variant == "refl" and otype is not None
            if left_is_operand:
                expect_types = (otype, cur_type) if False else (otype,)
            res_deg2 = (expect_types[0] in gen.DEG2)
            if res_deg2:
                okeys = [] if od[0] == "num" else (list(cur.keys()) if od[0] == "self" else list(OD.keys() if od[0] != "self" else []))
                if name == "mul" and od[0] != "num":
                    # KeyError is acceptable only if an intermediate product term really denotes > 2 variables
                    may_raise = product_overflows(list(cur.keys()), okeys, spin)
                else:
                    may_raise = any(squashed_len(k, spin) > 2 for k in okeys)
            f = {("add", "fwd"): lambda: cur + operand, ("add", "refl"): lambda: operand + cur,
                 ("sub", "fwd"): lambda: cur - operand, ("sub", "refl"): lambda: operand - cur,
                 ("mul", "fwd"): lambda: cur * operand, ("mul", "refl"): lambda: operand * cur}.get((name, variant))
            if variant == "inplace":
                must_be_same_obj = True
                tgt = cur

                def f(tgt=tgt, name=name, operand=operand):
                    x = tgt
                    if name == "add":
                        x += operand
                    elif name == "sub":
                        x -= operand
                    else:
                        x *= operand
                    return x
            res, _w = call(f)
        elif op[0] == "pow":
            _, k, inplace = op
            ref = table ** k
            may_raise = False
            if cur_deg2 and k > 1:
                # a **= k multiplies (k-1) times by the original; intermediate results are canonical
                inter = list(cur.keys())
                base = list(cur.keys())
                t_acc = table.copy()
                for _ in range(k - 1):
                    if product_overflows(inter, base, spin):
                        may_raise = True
                        break
                    t_acc = t_acc * table
                    inter = [tuple(labels[j] for j in kk) for kk in rp.canonical(t_acc, labels, spin)]
            if inplace:
                must_be_same_obj = True

                def f(tgt=cur, k=k):
                    x = tgt
                    x **= k
                    return x
                res, _w = call(f)
            else:
                res, _w = call(lambda: cur ** k)
        elif op[0] == "badpow":
            res, _w = call(lambda: cur ** op[1])
            if not (isinstance(res, Raised) and res.kind == "ValueError"):
                v("badpow-accepted", "** %r must raise ValueError, got %s" % (op[1], short(res)))
            if snap(cur) != cur_before:
                v("operand-mutated", "failed ** changed the operand")
            if vv and not last:
                return {"key": None, "viol": vv, "expand": False}
            viol = vv
            continue
        elif op[0] == "neg":
            ref = -table
            res, _w = call(lambda: -cur)
        elif op[0] == "pos":
            ref = table.copy()
            res, _w = call(lambda: +cur)
        elif op[0] == "div":
            _, c, inplace = op
            ref = table / c
            if inplace:
                must_be_same_obj = True

                def f(tgt=cur, c=c):
                    x = tgt
                    x /= c
                    return x
                res, _w = call(f)
            else:
                res, _w = call(lambda: cur / c)

        true_deg = rp.true_degree(ref, spin)
        if isinstance(res, Raised):
            if res.kind == "KeyError" and (may_raise or (expect_types[0] in gen.DEG2 and true_deg > 2)):
                dead = True    # legitimate: the value does not fit a degree-2 type
            else:
                v("raises-" + res.kind, "raised %r" % res.exc)
            if not must_be_same_obj and snap(cur) != cur_before:
                v("operand-mutated", "operator raised and changed its left operand")
            if operand_before is not None and snap(operand) != operand_before:
                v("operand-mutated", "operator raised and changed its other operand")
        else:
            if type(res).__name__ not in expect_types:
                v("type", "result type %s, expected %s" % (type(res).__name__, expect_types))
            elif must_be_same_obj and res is not cur:
                v("inplace-new-object", "in-place operator returned a different object")
            elif not must_be_same_obj and (res is cur or (res is operand and operand is not None and isinstance(operand, dict))):
                v("aliased-result", "operator returned one of its operands")
            else:
                if not isinstance(res, dict) or any(l not in labels for k in res for l in k):
                    v("labels", "result %s" % short(res))
                elif not values_equal(res, rp.tt(res, labels, spin), ref):
                    v("value", "result %s differs pointwise from the reference (first differing assignment %s)" % (short(dict(res)), rp.first_diff(rp.tt(res, labels, spin), ref)))
                else:
                    msg = canon_check(res, ref, labels, spin)
                    if msg:
                        v("not-canonical", "result %s is not stored canonically: %s" % (short(dict(res)), msg))
                    elif type(res).__name__ in gen.DEG2 and any(len(k) > 2 for k in res):
                        v("degree", "degree-2 type holds key of length > 2: %s" % short(dict(res)))
            if not must_be_same_obj and snap(cur) != cur_before:
                v("operand-mutated", "non-in-place operator changed its left operand: %s" % short(cur))
            if operand_before is not None and snap(operand) != operand_before:
                v("operand-mutated", "operator changed its other operand: %s" % short(operand))
        if vv and not last:
            return {"key": None, "viol": vv, "expand": False}
        viol = vv
        if dead or vv or isinstance(res, Raised):
            return {"key": None, "viol": viol, "expand": False, "why": "KeyError allowed for a degree-2 type"}
        cur, table = res, ref

    # .value on the state, every assignment, dict (and list for int labels)
    if not viol:
        vtol = 1e-9 * max(1.0, _scale(cur, table))      # evaluation sums the stored coefficients: rounding is relative to their size
        for a in range(8):
            asg = rp.assignment(a, labels, spin)
            r, _w = call(cur.value, asg)
            if isinstance(r, Raised) or abs(r - table[a]) > vtol:
                viol.append(("value-method|dict|%s" % type(cur).__name__, "C05 history %s: .value(%r) = %r, reference %r" % (hist, asg, r, table[a])))
                break
            if scheme == "int":
                r, _w = call(cur.value, [asg[i] for i in range(3)])
                if isinstance(r, Raised) or abs(r - table[a]) > vtol:
                    viol.append(("value-method|list|%s" % type(cur).__name__, "C05 history %s: .value(list %r) = %r, reference %r" % (hist, asg, r, table[a])))
                    break
    key = (hist[0][1], hist[0][2], type(cur).__name__, tuple(sorted(((k, round(float(v), 9)) for k, v in cur.items()), key=repr)))
    big = max((abs(v) for v in cur.values()), default=0)
    return {"key": key, "viol": viol, "expand": big <= COEF_BOUND, "why": "|coefficient| > %d" % COEF_BOUND,
            "nontrivial": len(cur) >= 2}


def _opclass(op):
    if op[0] == "bin":
        od = op[3]
        return "%s-%s(%s)" % (op[1], op[2], "number" if od[0] == "num" else ("self" if od[0] == "self" else od[1]))
    if op[0] == "pow":
        return "pow%s" % ("-inplace" if op[2] else "")
    if op[0] == "div":
        return "div%s" % ("-inplace" if op[2] else "")
    return op[0]


# ------------------------------------------------------------------ value functions on leaves (Engine A)

def value_cases():
    for kind in ("bool", "spin"):
        for scheme in gen.LABELLED_SCHEMES:
            for idx in list(range(len(LEAVES))) + ["raw", "raw2"]:
                yield {"kind": kind, "scheme": scheme, "leaf": idx}


def check_values(case, st):
    qv = paths.import_qubovert()
    kind, scheme, idx = case["kind"], case["scheme"], case["leaf"]
    spin = kind == "spin"
    labels = gen.labels_for(scheme, 3)
    D = gen.relabel(leaf_dict(kind, idx), scheme, 3)
    table = rp.tt(D, labels, spin)
    st.nontrivial += 1 if len(D) >= 2 else 0
    conts = ["dict"] if idx in ("raw", "raw2") else containers(kind)
    for cont in conts:
        if cont in gen.MATRIX and scheme not in gen.MATRIX_SCHEMES:
            continue
        if not leaf_ok(cont, D):
            continue
        M = gen.build(cont, D)
        fns = ["puso_value" if spin else "pubo_value"]
        if max((len(k) for k in M), default=0) <= 2:
            fns.append("quso_value" if spin else "qubo_value")
        before = snap(M)
        for fn in fns:
            for a in range(8):
                asg = rp.assignment(a, labels, spin)
                forms = [("dict", asg)]
                if scheme == "int":
                    forms += [("list", [asg[i] for i in range(3)]), ("tuple", tuple(asg[i] for i in range(3)))]
                for fname, x in forms:
                    st.transitions += 1
                    st.traces += 1
                    r, _w = call(getattr(qv.utils, fn), x, M)
                    if isinstance(r, Raised) or abs(r - table[a]) > 1e-9:
                        st.violation("%s|%s|%s" % (fn, fname, "raw" if idx in ("raw", "raw2") else "canonical"), dict(case, container=cont, part="values"),
                                     "C05 %s(%r, %s %s) = %r, direct evaluation gives %r" % (fn, x, cont, short(dict(M)), r, table[a]))
            if snap(M) != before:
                st.violation("%s|argument-mutated" % fn, dict(case, container=cont, part="values"), "C05 %s changed its model argument" % fn)


# ------------------------------------------------------------------ scalars at the ends of the float range (Engine A)

EXTREME = [("div", 1e200), ("mul", 1e-200), ("div", float("inf")), ("mul", 0.0), ("mul", 1e200)]


def extreme_cases():
    for kind in ("bool", "spin"):
        for cont in containers(kind):
            if cont == "dict":
                continue
            for i, (op, c) in enumerate(EXTREME):
                for inplace in (False, True):
                    yield {"part": "extreme", "kind": kind, "container": cont, "op": i, "inplace": inplace}


def check_extreme(case, st):
    """Coefficients that underflow to zero (or are multiplied by zero) must disappear like every other zero; the result must stay
    a model that further arithmetic accepts.  a = {x0: 1.0, x0 x1: 1e-300, (): 2.0}; r = a op c; r = r op c; then r + r."""
    kind, cont = case["kind"], case["container"]
    spin = kind == "spin"
    op, c = EXTREME[case["op"]]
    labels = gen.labels_for("int", 2)
    D = {(0,): 1.0, (0, 1): 1e-300, (): 2.0}
    M = gen.build(cont, D)
    st.nontrivial += 1

    def apply(x):
        if case["inplace"]:
            if op == "div":
                x /= c
            else:
                x *= c
            return x
        return (x / c) if op == "div" else (x * c)
    t = rp.tt(D, labels, spin)
    cur = M
    for stepno in (1, 2):
        st.transitions += 1
        st.traces += 1
        r, _w = call(apply, cur)
        with np.errstate(all="ignore"):
            t = (t / c) if op == "div" else (t * c)

        def v(k, msg):
            st.violation("extreme|%s|%s" % (k, cont), case, "C05 %s %s: a = %s; a %s= %r applied %d time(s): %s"
                         % (cont, "in place" if case["inplace"] else "forward", D, "/" if op == "div" else "*", c, stepno, msg))
        if isinstance(r, Raised):
            v("raises-" + r.kind, "raised %r" % r.exc)
            return
        if not np.all(np.isfinite(t)):
            return        # overflow to inf: no claim
        zero = [k for k, x in r.items() if x == 0]
        if zero:
            v("zero-stored", "result %s stores a zero coefficient under %r" % (short(dict(r)), zero[0]))
            return
        if not values_equal(r, rp.tt(r, labels, spin), t):
            v("value", "result %s differs from the reference table %s" % (short(dict(r)), t.tolist()))
            return
        cur = r
    r2, _w = call(lambda: cur + cur)
    if isinstance(r2, Raised):
        st.violation("extreme|sum-raises|%s" % cont, case, "C05 %s: after a %s= %r twice (result %s), r + r raised %r" % (cont, "/" if op == "div" else "*", c, short(dict(cur)), r2.exc))


# ------------------------------------------------------------------ equal labels of different types inside one key (Engine A)

# 1 == True == 1.0 as dict keys: inside one key they are ONE variable, whatever the library's sort order puts between them
EQ_KEYS = [(True, 0, 1), (1, 0, True), (1.0, 0, 1), (1, 0, 1.0), (1, 2, 1.0), (True, 2, 0, 1), (0, True, 1), (True, 1.0, 1, 0), (2, 1, 0, True, 2)]
EQ_ROUTES = ("dict", "setitem", "mul", "mul-dict", "imul")


def eqlabel_cases():
    for typ in ("PUSO", "PCSO", "PUBO", "PCBO"):
        for k in range(len(EQ_KEYS)):
            for route in EQ_ROUTES:
                yield {"part": "eqlabels", "type": typ, "key": k, "route": route}


def check_eqlabels(case, st):
    qv = paths.import_qubovert()
    typ, key, route = case["type"], EQ_KEYS[case["key"]], case["route"]
    T = getattr(qv, typ)
    spin = typ in ("PUSO", "PCSO")
    st.nontrivial += 1
    st.transitions += 1
    st.traces += 1

    def build():
        if route == "dict":
            return T({key: 2})
        if route == "setitem":
            M = T()
            M[key] = 2
            return M
        a = T({key[:-1]: 2})
        if route == "mul":
            return a * T({key[-1:]: 1})
        if route == "mul-dict":
            return a * {key[-1:]: 1}
        a *= T({key[-1:]: 1})
        return a
    R, _w = call(build)

    def v(kind, msg):
        st.violation("eqlabels|%s|%s|%s" % ("spin" if spin else "bool", route, kind), case, "C05 %s, key %r via %s: %s" % (typ, key, route, msg))
    if isinstance(R, Raised):
        v("raises-" + R.kind, "raised %r" % R.exc)
        return
    for k in R:
        if any(k[i] == k[j] for i in range(len(k)) for j in range(i + 1, len(k))):
            v("duplicate-in-key", "stored key %r holds the same variable twice (result %s)" % (k, short(dict(R))))
            return
    if len(R) > 1:
        v("terms", "one monomial became %d terms: %s" % (len(R), short(dict(R))))
        return
    for bits in range(8):
        x = rp.assignment(bits, [0, 1, 2], spin)
        want = 2
        for lab in (0, 1, 2):
            m = sum(1 for l in key if l == lab)
            if (m % 2) if spin else m:
                want *= x[lab]
        got, _w = call(R.value, x)
        st.transitions += 1
        if isinstance(got, Raised) or abs(got - want) > 1e-9:
            v("value", "value at %r is %r, direct evaluation gives %r (result %s)" % (x, got, want, short(dict(R))))
            return
    st.outcomes["eqlabels ok"] += 1


def run(ctx):
    depth = 2 if ctx.quick else 3
    ctx.bounds = {"variables": 3, "leaves": [rp.jdict(x) for x in LEAVES], "raw_dict_leaf": rp.jdict(RAW_BOOL), "raw_dict_leaf_2": rp.jdict(RAW2), "numbers": NUMBERS, "divisors": DIVS,
                  "schemes": SCHEMES, "extreme_scalars": [[o, repr(c)] for o, c in EXTREME], "equal_label_keys": [repr(k) for k in EQ_KEYS], "expression_depth": depth, "coef_bound": COEF_BOUND, "ops_per_state": len(op_menu("bool", "int"))}
    ctx.rule = ("state = (kind, labels, type, stored dict) reached by an expression history; every operator application from every state up to the depth; "
                "non-trivial = value has >= 2 terms; plus the value functions on every leaf x container x label scheme x assignment x sequence form")
    ctx.assumptions = ["one side of every operator application is a leaf (left/right-deep expression trees)"]
    explore_cases(ctx, lambda: value_cases(), check_values, label="C05 values")
    explore_cases(ctx, lambda: extreme_cases(), check_extreme, label="C05 extreme scalars")
    explore_cases(ctx, lambda: eqlabel_cases(), check_eqlabels, label="C05 equal labels of different types")
    bfs(ctx, step, enabled, max_depth=depth + 1, label="C05 expressions",
        count_outcome=lambda h, r: "violation" if r["viol"] else ("raised-allowed/pruned" if r["key"] is None or not r.get("expand", True) else "ok"))
    ctx.exhaustive = True


def replay(case):
    if isinstance(case, dict) and case.get("part") == "values":
        st = Stats()
        check_values({k: case[k] for k in ("kind", "scheme", "leaf")}, st)
        return [(s, m) for s, c, m in st.viol]
    if isinstance(case, dict) and case.get("part") == "extreme":
        st = Stats()
        check_extreme({k: case[k] for k in ("part", "kind", "container", "op", "inplace")}, st)
        return [(s, m) for s, c, m in st.viol]
    if isinstance(case, dict) and case.get("part") == "eqlabels":
        st = Stats()
        check_eqlabels({k: case[k] for k in ("part", "type", "key", "route")}, st)
        return [(s, m) for s, c, m in st.viol]
    r = step(case)
    return r["viol"]
