"""C18 -- subvalue / subgraph / normalize preserve the represented function.

Engine A: all small models x containers x label schemes x all partial assignments / node sets /
connection maps; result compared with the reference truth table of the substituted polynomial.
"""
import itertools

from .. import gen, paths
from ..common import call, Raised, short, snap
from ..ref import poly as rp
from ..runner import explore_cases

ID = "C18"
META = {
    "engine": "smallscope",
    "technique": "exhaustive small-scope enumeration of models x partial assignments / node subsets / connection maps, truth-table comparison",
    "text": "For every model with <=3 variables and <=2 (quick) / <=3 (thorough) terms in every container (incl. raw dicts with permuted keys and raw dicts / DictArithmetic objects whose keys repeat a label) and label scheme: subvalue with all 27 partial "
            "assignments over the domain plus off-domain numbers and a sympy symbol, subgraph with all 8 node subsets x every partial connection map of the outside variables "
            "(absent / either domain value, and None; also maps that name variables inside the node set, which must be ignored), in function and method form, and normalize (function and method) for two target values. "
            "Result type, table over the remaining variables, and argument immutability are checked.",
    "note": "Bounded: n<=3, dyadic coefficients. Symbolic results are compared after substituting a number (never structurally).",
}

COEFS = (-2, 1, 3)
OFFSETS = (0, 2.5)
N = 3


def gen_cases(tier):
    maxterms = 2 if tier == "quick" else 3

    def it():
        for kind in ("bool", "spin"):
            for D in gen.polys(N, maxterms, COEFS, offsets=OFFSETS):
                yield {"kind": kind, "poly": rp.jdict(D), "quick": tier == "quick"}
    return it


def numeric(D, sym, c):
    out = {}
    for k, v in D.items():
        if hasattr(v, "subs"):
            v = float(v.subs(sym, c))
        out[k] = v
    return out


def sub_menu(spin):
    d0, d1 = (1, -1) if spin else (0, 1)
    menu = []
    for combo in itertools.product((None, d0, d1), repeat=N):
        menu.append(list(combo))
    for i in range(N):
        for val in (2, -3, "sym"):
            c = [None] * N
            c[i] = val
            menu.append(c)
    menu.append([2, -3, 2])
    menu.append([d1, None, None, "extra"])      # `values` also names a label the model does not have (must be ignored)
    menu.append(["sym", d1, None])
    menu.append([d1, "sym", 2])
    return menu


def check(case, st):
    qv = paths.import_qubovert()
    import sympy
    sym = sympy.Symbol("s")
    SYMVAL = 1.5
    spin = case["kind"] == "spin"
    D0 = rp.unjdict(case["poly"])
    deg = max((len(k) for k in D0), default=0)
    if len(D0) - (() in D0) >= 1:
        st.nontrivial += 1
    # dictdup / DAdup: a plain dict / DictArithmetic whose keys repeat a label (what products of DictArithmetic objects look like)
    conts = list(gen.SPIN_CONTAINERS if spin else gen.BOOL_CONTAINERS) + ["dictperm", "dictdup", "DAdup"]
    d0, d1 = (1, -1) if spin else (0, 1)
    for cont in conts:
        if cont in gen.DEG2 and deg > 2:
            continue
        for sch in (gen.MATRIX_SCHEMES if cont in gen.MATRIX else (gen.LABELLED_SCHEMES if not case.get("quick") else ("int", "str", "gap", "tuple"))):
            D = gen.relabel(D0, sch, N)
            labels = gen.labels_for(sch, N)
            st.extra["models_built"] = st.extra.get("models_built", 0) + 1
            if cont in ("dictdup", "DAdup"):
                if sch not in ("int", "str"):
                    continue
                D = {(k + (k[0],) if k else k): v for k, v in D.items()}      # x_a x_b x_a: literal products, the reference multiplies per occurrence
                M = dict(D) if cont == "dictdup" else qv.utils.DictArithmetic(D)
            else:
                M = {tuple(reversed(k)): v for k, v in D.items()} if cont == "dictperm" else gen.build(cont, D)
            before = snap(M)
            ismodel = type(M) is not dict

            def viol(fn, kind, msg, extra):
                st.violation("%s|%s|%s" % (fn, kind, "model" if ismodel else "dict"), dict(case, container=cont, scheme=sch, **extra),
                             "C18 %s on %s %s: %s" % (fn, cont, short(dict(M), 200), msg))

            # ---------------------------------------------------------------- subvalue
            for combo in sub_menu(spin):
                values = {}
                numvalues = {}
                if cont in ("dictdup", "DAdup") and not spin and any(v not in (None, 0, 1) for v in combo):
                    continue      # a repeated boolean label with an off-domain value has no defined value (pubo_value treats labels as truth values)
                if len(combo) > N:
                    values["label-not-in-model"] = 1
                    combo = combo[:N]
                for i, val in enumerate(combo):
                    if val is None:
                        continue
                    values[labels[i]] = sym if val == "sym" else val
                    numvalues[labels[i]] = SYMVAL if val == "sym" else val
                rest = [l for i, l in enumerate(labels) if combo[i] is None]
                # reference: substitute into the multilinear polynomial
                Dref = {}
                for k, c in D.items():
                    p = c
                    key = []
                    for l in k:
                        if l in numvalues:
                            p = p * numvalues[l]
                        else:
                            key.append(l)
                    Dref[tuple(key)] = Dref.get(tuple(key), 0) + p
                tref = rp.tt(Dref, rest, spin)
                forms = [("subvalue", lambda: qv.utils.subvalue(values, M))]
                if ismodel:
                    forms.append(("subvalue-method", lambda: M.subvalue(values)))
                for fname, f in forms:
                    st.transitions += 1
                    st.traces += 1
                    r, _w = call(f)
                    ex = {"op": fname, "values": [[rp.jkey((l,))[0], ("sym" if v is sym else v)] for l, v in values.items()]}
                    if isinstance(r, Raised):
                        viol(fname, "raises-" + r.kind, "values=%r raised %r" % (values, r.exc), ex)
                        continue
                    if type(r) is not type(M):
                        viol(fname, "type", "values=%r returned %s, expected %s" % (values, type(r).__name__, type(M).__name__), ex)
                        continue
                    rn = numeric(r, sym, SYMVAL)
                    if any(l not in rest for k in rn for l in k):
                        viol(fname, "leftover-variable", "values=%r: result %s still mentions a substituted variable" % (values, short(dict(r))), ex)
                        continue
                    if not rp.tables_equal(rp.tt(rn, rest, spin), tref):
                        viol(fname, "value", "values=%r: result %s differs from G with the values substituted (%s)" % (values, short(dict(r)), short(Dref)), ex)
                    if snap(M) != before:
                        viol(fname, "argument-mutated", "G changed", ex)
                        before = snap(M)
            # ---------------------------------------------------------------- subgraph
            for k in range(N + 1):
                for nodes_idx in itertools.combinations(range(N), k):
                    nodes = [labels[i] for i in nodes_idx]
                    outside = [labels[i] for i in range(N) if i not in nodes_idx]
                    # every PARTIAL connection map too: each outside variable absent (-> default 0) or fixed to a domain value
                    conns = [None] + [{l: c for l, c in zip(outside, combo) if c is not None}
                                      for combo in itertools.product((None, d0, d1), repeat=len(outside))]
                    # a connection map / node set naming labels the model does not have
                    conns.append(dict({l: d1 for l in outside}, **{"label-not-in-model": d1}))
                    if nodes:
                        # connection maps that also name variables INSIDE `nodes` (a full current assignment): those entries are ignored
                        conns.append({l: d1 for l in labels})
                        conns.append({**{l: d0 for l in outside}, nodes[0]: d1})
                        conns.append({nodes[-1]: d0})
                    for conn in conns:
                        fixed = {l: (conn or {}).get(l, 0) for l in outside}
                        Dref = {}
                        for key, c in D.items():
                            if not key:
                                continue
                            p = c
                            kk = []
                            for l in key:
                                if l in fixed:
                                    p = p * fixed[l]
                                else:
                                    kk.append(l)
                            Dref[tuple(kk)] = Dref.get(tuple(kk), 0) + p
                        tref = rp.tt(Dref, nodes, spin)
                        for nodes_arg_name, nodes_arg in (("set", set(nodes)), ("list", list(nodes))):
                            forms = [("subgraph", lambda: qv.utils.subgraph(M, nodes_arg, conn) if conn is not None else qv.utils.subgraph(M, nodes_arg))]
                            if ismodel:
                                forms.append(("subgraph-method", lambda: M.subgraph(nodes_arg, conn) if conn is not None else M.subgraph(nodes_arg)))
                            for fname, f in forms:
                                st.transitions += 1
                                st.traces += 1
                                r, _w = call(f)
                                ex = {"op": fname, "nodes": rp.jkey(tuple(nodes)), "connections": None if conn is None else [[rp.jkey((l,))[0], v] for l, v in conn.items()]}
                                if isinstance(r, Raised):
                                    viol(fname, "raises-" + r.kind, "nodes=%r connections=%r raised %r" % (nodes, conn, r.exc), ex)
                                    continue
                                if type(r) is not type(M):
                                    viol(fname, "type", "returned %s, expected %s" % (type(r).__name__, type(M).__name__), ex)
                                    continue
                                if any(l not in nodes for key in r for l in key):
                                    viol(fname, "outside-variable", "nodes=%r connections=%r: result %s mentions a variable outside nodes" % (nodes, conn, short(dict(r))), ex)
                                    continue
                                if not rp.tables_equal(rp.tt(r, nodes, spin), tref):
                                    viol(fname, "value", "nodes=%r connections=%r: result %s, reference %s" % (nodes, conn, short(dict(r)), short(Dref)), ex)
                                if snap(M) != before:
                                    viol(fname, "argument-mutated", "G changed", ex)
                                    before = snap(M)
            # ---------------------------------------------------------------- normalize
            for value in (1, 2.5):
                big = max((abs(v) for v in D.values()), default=None)
                forms = []
                if D:
                    forms.append(("normalize", lambda: qv.utils.normalize(M, value)))
                    # the same model with numpy-typed coefficients (what subvalue / subgraph hand back)
                    import numpy as _np
                    Mnp = type(M)({k: (_np.int64(v) if float(v) == int(v) else _np.float64(v)) for k, v in M.items()})
                    forms.append(("normalize-numpy-coefficients", lambda: qv.utils.normalize(Mnp, value)))
                if ismodel:
                    def meth():
                        C = M.copy()
                        ret = C.normalize(value)
                        return C
                    forms.append(("normalize-method", meth))
                for fname, f in forms:
                    st.transitions += 1
                    st.traces += 1
                    r, _w = call(f)
                    ex = {"op": fname, "value": value}
                    if isinstance(r, Raised):
                        viol(fname, "raises-" + r.kind, "raised %r" % r.exc, ex)
                        continue
                    if type(r) is not type(M):
                        viol(fname, "type", "returned %s, expected %s" % (type(r).__name__, type(M).__name__), ex)
                        continue
                    if set(r.keys()) != set(M.keys()):
                        viol(fname, "keyset", "key set changed: %s" % short(dict(r)), ex)
                        continue
                    if D:
                        if abs(max(abs(v) for v in r.values()) - value) > 1e-9:
                            viol(fname, "max-magnitude", "largest magnitude is %r, requested %r" % (max(abs(v) for v in r.values()), value), ex)
                        elif any(abs(r[k] * big - M[k] * value) > 1e-9 for k in M):
                            viol(fname, "common-factor", "coefficients are not scaled by one common factor: %s" % short(dict(r)), ex)
                    if snap(M) != before:
                        viol(fname, "argument-mutated", "G changed", ex)
                        before = snap(M)


def run(ctx):
    ctx.bounds = {"n": N, "coefs": COEFS, "offsets": OFFSETS, "max_terms": 2 if ctx.quick else 3,
                  "subvalue_assignments": len(sub_menu(False)), "subgraph": "8 node subsets x (None + every partial map of the outside variables into the domain) x nodes as set/list",
                  "normalize_values": [1, 2.5]}
    ctx.rule = "case = (kind, polynomial); checked in every container x label scheme x call; non-trivial = has a non-constant term"
    explore_cases(ctx, gen_cases(ctx.tier), check, label="C18")


def replay(case):
    from ..runner import Stats
    st = Stats()
    check({"kind": case["kind"], "poly": case["poly"], "quick": False}, st)
    return [(s, m) for s, c, m in st.viol]
