"""C09 -- brute-force solvers return the exact minimum and exactly the minimisers.

Engine A: every model of a small scope x container x label scheme x solver entry point x validity
predicate (ALL subsets of the assignment space on the reduced slice, a menu elsewhere) x all_solutions.
"""
import itertools

from .. import gen, paths
from ..common import call, Raised, snap, short
from ..ref import poly as rp
from ..runner import explore_cases

ID = "C09"
META = {
    "engine": "smallscope",
    "technique": "exhaustive small-scope enumeration of models x containers x labels x validity predicates (all subsets of assignments) against a truth-table reference",
    "text": "All models with <=3 variables and <=2 (quick) / <=3 (thorough) terms over coefficients {-1,1,2} (ties by design), in every container (raw dicts also with permuted / repeated / duplicate keys and with explicit zero coefficients on otherwise unused variables); with the accept-all predicate the returned assignment(s) are edited in place and the solver is called again (same answer expected) "
            "and label scheme, are solved with every brute-force entry point; for the reduced slice every one of the 2^(2^n) validity predicates is "
            "tried. Objective, key set, minimality, the exact multiset of minimisers, constants, None on empty feasible set and argument immutability "
            "are compared with a truth-table reference.",
    "note": "Bounded: n<=3, coefficient alphabet {-1,1,2}, offsets {0,2}. Raw dicts carry only non-zero coefficients. Trusted: numpy truth tables.",
}

COEFS = (-1, 1, 2)
OFFSETS = (0, 2)
N = 3


def containers(kind):
    base = list(gen.BOOL_CONTAINERS if kind == "bool" else gen.SPIN_CONTAINERS)
    # "-supermap": a labelled model that carries a user-set mapping with one more label than it uses (a mapping shared by a
    # family of models); the extra label is not a variable of the model
    # "dictzero": a raw dict with an explicit zero coefficient on a variable that has no other term (still a variable of the model)
    return base + ["dictperm", "dictrep", "dictdup", "dictzero"] + (["PUBO-supermap", "QUBO-supermap"] if kind == "bool" else ["PUSO-supermap", "QUSO-supermap"])


def gen_cases(tier):
    maxterms = 2 if tier == "quick" else 3
    polys = list(gen.polys(N, maxterms, COEFS, offsets=OFFSETS))
    polys.append({(): 5})          # constant (the empty model is polys[0])
    # magnitude slice: the same small models next to a huge exact-integer offset / with huge exact-integer coefficients
    # (differences of 1 at magnitude 1e10 are exact in doubles; a solver must still separate them)
    big = []
    for D in gen.polys(2, 2, (-1, 1, 2), minterms=1):
        for off in (10 ** 10, -10 ** 10):
            E = dict(D)
            E[()] = off
            big.append(E)
        big.append({k: v * 10 ** 10 + (1 if len(k) == 1 else 0) for k, v in D.items()})

    def it():
        for kind in ("bool", "spin"):
            for D in polys:
                deg = max((len(k) for k in D), default=0)
                jd = rp.jdict(D)
                for cont in containers(kind):
                    if cont.split("-")[0] in gen.DEG2 and deg > 2:
                        continue
                    if cont.endswith("-supermap") and not any(k for k in D):
                        continue
                    if cont == "dictzero" and (not any(k for k in D) or gen.uses_all(D, N)):
                        continue
                    schemes = gen.MATRIX_SCHEMES if cont in gen.MATRIX else (gen.LABELLED_SCHEMES if not cont.endswith("-supermap") else ("str", "gap"))
                    for sch in schemes:
                        full = sch in ("int", "str") and cont in ("dict", "PUBO", "PUSO", "QUBOMatrix", "QUSOMatrix") \
                            and (len(D) - (() in D)) <= 2
                        yield {"kind": kind, "poly": jd, "container": cont, "scheme": sch, "preds": "full" if full else "menu"}
            for D in big:
                for cont in (("dict", "PUBO", "QUBOMatrix") if kind == "bool" else ("dict", "PUSO", "QUSOMatrix")):
                    yield {"kind": kind, "poly": rp.jdict(D), "container": cont, "scheme": "int", "preds": "menu"}
    return it


def build_model(case):
    spin = case["kind"] == "spin"
    D = gen.relabel(rp.unjdict(case["poly"]), case["scheme"], N)
    cont = case["container"]
    if cont == "dictperm":
        return {tuple(reversed(k)): v for k, v in D.items()}, D
    if cont == "dictzero":
        free = [l for l in gen.labels_for(case["scheme"], N) if not any(l in k for k in D)]
        M = dict(D)
        M[(free[-1],)] = 0
        if len(free) > 1:
            M = dict([((free[0], free[-1]), 0.0)] + list(M.items()))
        return M, dict(M)
    if cont == "dictdup":
        from .c04 import spell
        return spell(D, "dictdup", spin), D
    if cont == "dictrep":
        if spin:
            return {(k * 3 if len(k) == 1 else k): v for k, v in D.items()}, D
        return {(k * 2 if len(k) == 1 else k): v for k, v in D.items()}, D
    if cont.endswith("-supermap"):
        M = gen.build(cont.split("-")[0], D)
        mp = M.mapping
        mp["unused-extra-label"] = len(mp)
        M.set_mapping(mp)
        return M, D
    return gen.build(cont, D), D


def predicates(mode, nvars, table):
    size = 1 << nvars
    if mode == "full":
        for m in range(1 << size):
            yield m
        return
    allm = (1 << size) - 1
    seen = set()
    mn = table.min() if size else 0
    argmins = sum(1 << a for a in range(size) if table[a] <= mn + 1e-9)
    parity = sum(1 << a for a in range(size) if bin(a).count("1") % 2 == 0)
    first1 = sum(1 << a for a in range(size) if a & 1)
    for m in (allm, 0, 1, parity, first1, allm & ~argmins, 1 << (size - 1)):
        if m not in seen:
            seen.add(m)
            yield m


def check(case, st):
    qv = paths.import_qubovert()
    spin = case["kind"] == "spin"
    M, D = build_model(case)
    cont = case["container"]
    # reference: variables = labels mentioned by non-constant keys, in index order
    labels = [l for l in gen.labels_for(case["scheme"], N) if any(l in k for k in D)]
    n = len(labels)
    table = rp.tt(D, labels, spin)
    deg = max((len(set(k)) for k in D), default=0)
    rawdeg = max((len(k) for k in M), default=0)
    fns = ["solve_puso_bruteforce" if spin else "solve_pubo_bruteforce"]
    if rawdeg <= 2:
        fns.append("solve_quso_bruteforce" if spin else "solve_qubo_bruteforce")
    if not isinstance(M, dict) or type(M) is not dict:
        fns.append("method")
    before = snap(M)
    vals = (1, -1) if spin else (0, 1)
    assigns = [rp.assignment(a, labels, spin) for a in range(1 << n)]

    def frz(x):
        return tuple(sorted(x.items(), key=repr))

    nontrivial = False
    first_mask = (1 << (1 << n)) - 1       # the predicate accepting everything
    for fn in fns:
        for mask in (predicates(case["preds"], n, table) if fn != "method" else [(1 << (1 << n)) - 1]):
            allowed = [a for a in range(1 << n) if (mask >> a) & 1]
            if n == 0 and not allowed:
                # constant model + predicate rejecting the empty assignment: the statement's two clauses
                # ("None if nothing is valid" / "a constant yields the constant") disagree; not probed.
                st.skipped["constant model with a predicate rejecting {}"] += 1
                continue
            allowed_set = {frz(assigns[a]) for a in allowed}

            def valid(x, _s=allowed_set):
                return frz(x) in _s
            ref_min = min((table[a] for a in allowed), default=None)
            ref_args = {frz(assigns[a]) for a in allowed if abs(table[a] - ref_min) <= 1e-9} if allowed else set()
            if len(ref_args) > 1 or (allowed and len(allowed) < (1 << n)):
                nontrivial = True
            for alls in (False, True):
                st.transitions += 1
                st.traces += 1
                if fn == "method":
                    r, _w = call(M.solve_bruteforce, alls)
                    obj = "n/a"
                    sol = r
                else:
                    r, _w = call(getattr(qv.utils, fn), M, alls, valid)
                    obj, sol = (r if not isinstance(r, Raised) else (None, None))

                def v(kind, msg):
                    st.violation("%s|%s|%s|%s" % (fn, "all" if alls else "one", kind, "const" if n == 0 else "nonconst"),
                                 dict(case, fn=fn, mask=mask, all_solutions=alls),
                                 "C09 %s(%s %s, all_solutions=%s, valid=mask %d): %s" % (fn, cont, short(dict(M) if isinstance(M, dict) else M, 160), alls, mask, msg))
                if isinstance(r, Raised):
                    v("raises-" + r.kind, "raised %r" % r.exc)
                    continue
                if snap(M) != before:
                    v("argument-mutated", "the model passed in changed: %s" % short(M))
                    before = snap(M)
                if fn != "method":
                    if ref_min is None:
                        if obj is not None:
                            v("objective-not-None", "no assignment is valid but objective = %r" % (obj,))
                        continue
                    if obj is None or abs(obj - ref_min) > 1e-9:
                        v("objective", "objective %r, reference minimum over valid assignments %r" % (obj, ref_min))
                        continue
                sols = sol if alls else [sol]
                if alls and not isinstance(sol, list):
                    v("not-a-list", "all_solutions=True returned %r" % (sol,))
                    continue
                bad = False
                for s in sols:
                    if not isinstance(s, dict) or set(s) != set(labels):
                        v("keyset", "assignment %r does not have exactly the model's variables %r as keys" % (s, labels))
                        bad = True
                        break
                    if any(x not in vals for x in s.values()):
                        v("domain", "assignment %r has values outside %r" % (s, vals))
                        bad = True
                        break
                    if frz(s) not in ref_args:
                        v("not-a-minimiser", "assignment %r is not a valid minimiser (reference minimisers %s)" % (s, sorted(ref_args)))
                        bad = True
                        break
                if bad:
                    continue
                if alls:
                    got = sorted(frz(s) for s in sols)
                    if got != sorted(ref_args):
                        v("minimiser-multiset", "returned minimisers %s, reference %s" % (got, sorted(ref_args)))
                st.outcomes["%d minimisers" % len(ref_args) if ref_min is not None else "infeasible"] += 1
                if mask == first_mask:
                    # the result belongs to the caller: edit it in place, solve again, and the answer must be what it was
                    pristine = snap(sol)
                    if alls:
                        for s_ in sol:
                            s_["zz-caller-edit"] = 1
                        sol.append({"zz-caller-entry": 0})
                    else:
                        sol["zz-caller-edit"] = 1
                    st.transitions += 1
                    if fn == "method":
                        r2, _w = call(M.solve_bruteforce, alls)
                        sol2 = r2
                    else:
                        r2, _w = call(getattr(qv.utils, fn), M, alls, valid)
                        sol2 = r2[1] if not isinstance(r2, Raised) else r2
                    if isinstance(sol2, Raised) or snap(sol2) != pristine:
                        v("result-shared", "after the caller edited the returned assignment(s) in place, solving again returns %s instead of %s" % (short(sol2), short(pristine)))
    if nontrivial:
        st.nontrivial += 1


def run(ctx):
    ctx.bounds = {"n": N, "coefs": COEFS, "offsets": OFFSETS, "max_terms": 2 if ctx.quick else 3,
                  "containers": containers("bool") + containers("spin"), "schemes": list(gen.LABELLED_SCHEMES),
                  "magnitude_slice": "two-variable models with offsets +-1e10 and with coefficients scaled by 1e10 (+1 on linear terms), exact in doubles",
                  "predicates": "all 2^(2^n) subsets on the slice {int,str labels} x {dict, PUBO/PUSO, QUBOMatrix/QUSOMatrix} x <=2 terms; menu of 7 elsewhere"}
    ctx.rule = ("case = (kind, polynomial, container, label scheme); for each: every applicable solver x predicate x all_solutions; "
                "non-trivial = some predicate excludes assignments or leaves a tie between minimisers")
    ctx.assumptions = ["coefficients are small integers so comparisons are exact", "raw dicts contain no zero coefficients"]
    explore_cases(ctx, gen_cases(ctx.tier), check, label="C09")


def replay(case):
    from ..runner import Stats
    st = Stats()
    check({k: case[k] for k in ("kind", "poly", "container", "scheme", "preds")}, st)
    want = (case.get("fn"), case.get("mask"), case.get("all_solutions"))
    out = []
    for sig, c, msg in st.viol:
        out.append((sig, msg))
    return out
