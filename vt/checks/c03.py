"""C03 -- PCSO comparison constraints become exact non-negative penalties on spins.

Engine A: all small integer polynomials x 6 relations x log_trick x bounds variants x lam; the terms
added to an empty PCSO are tabulated (spin values +-1 for variables and ancillas) over variables AND ancillas.  Sequences: all ordered tuples of
constraints from a branch-covering menu on a model with an objective.
"""
from .. import constraints

ID = "C03"
META = {
    "engine": "smallscope",
    "technique": "exhaustive small-scope enumeration of constraint polynomials x relations x options; full truth table over variables and ancillas; all constraint sequences from a branch-covering menu",
    "text": "Every integer spin polynomial with <=3 spins, 1 term (+ all unit-coefficient 2-term ones) (quick) / <=2 terms (thorough) over {-2,-1,1,2} and offset in -2..2, every relation, log_trick, six "
            "kinds of valid bounds and three weights is added to an empty PCSO; on the table over all variables and ancillas F>=0, min_a F=0 exactly where P R 0 "
            "and >=lam elsewhere (unless warned unsatisfiable), is_solution_valid agrees with the relation, only __a ancillas appear, P is unchanged. All ordered "
            "sequences of length 2 from a 15-constraint spin menu; the spin images m*B((1-z)/2) of every boolean B with <=2 (thorough 3) unit-coefficient terms (the inputs that reach the boolean special forms): ancilla names never repeat across the PCSO / temporary-PCBO hand-off, num_ancillas covers every ancilla, penalties add.",
    "note": "Bounded: n<=3, coefficient alphabet, <=11 ancillas per constraint / <=16 variables per sequence (larger ones counted as skipped). Reference relation semantics on numpy tables.",
}



def run(ctx):
    constraints.run(ctx, spin=True)


def replay(case):
    return constraints.replay(case)
