"""C08 -- constrained optimum survives penalisation, reduction and solution conversion.

Engine A over (objective x ordered constraint history x log_trick x weight): the constrained model H and each
of its four target forms are tabulated over ALL their labels; every arg-min is pushed through the real
convert_solution and compared with the reference constrained optimum.
"""
import itertools

import numpy as np

from .. import gen, paths, constraints as cs
from ..common import call, Raised, short, snap
from ..ref import poly as rp
from ..runner import explore_cases, Stats

ID = "C08"
META = {
    "engine": "smallscope",
    "technique": "exhaustive enumeration of objective x constraint histories x options; full truth tables of the penalised model and its four reduced forms; every arg-min converted by the real convert_solution and compared with the reference constrained optimum",
    "text": "For every objective from the objective set and every ordered constraint history (length 1-2 quick / 1-3 thorough for PCBO over a menu of 21 comparison + 4 logical constraints; "
            "length 1 quick / 1-2 thorough for PCSO), log_trick both ways and two admissible weights: solve_bruteforce() is feasible-optimal; for H itself and for to_pubo/to_puso/to_qubo/to_quso the "
            "table over all labels has minimum F* and EVERY arg-min (grouped by projection on the model labels) converts to a feasible optimal assignment accepted by is_solution_valid; arg-mins "
            "restricted to the form's own variables (what a solver returns) must convert too; remove_ancilla_from_solution is the non-ancilla restriction.",
    "note": "Bounded: 3 model variables, <=16 labels per form (larger are counted as skipped), objective/coefficient alphabets. Histories that are infeasible or warn 'cannot be satisfied' are skipped and counted. "
            "Known finding D8 (stale variable after cancelling penalties) is listed in known_findings.json.",
}

N = 3
MAXL = 16
COEFS = (-2, -1, 1, 2)
LOGICAL = [("eq_XOR", (0, 1, 2)), ("OR", (0, 1)), ("NAND", (1, 2)), ("eq_AND", (2, 0, 1))]
QUICK_TWO_TERM = [{(0,): 1, (1, 2): -2}, {(0, 1): 2, (2,): -1}, {(0,): -1, (1,): -1}, {(0, 1, 2): 1, (0,): -2},
                  {(1,): 1, (2,): -2}, {(0, 2): -1, (1,): 2}, {(0, 1): -2, (1, 2): 1}, {(2,): 2, (0, 1, 2): -1}]


def objectives(tier, spin):
    one = list(gen.polys(N, 1, COEFS))
    if tier == "quick":
        return one + (QUICK_TWO_TERM if not spin else QUICK_TWO_TERM[:3])
    if spin:
        return one + QUICK_TWO_TERM
    return list(gen.polys(N, 2, COEFS))


def menu(spin):
    if spin:
        return [("cmp", i) for i in range(len(cs.SPIN_MENU))]
    return [("cmp", i) for i in range(len(cs.MENU))] + [("log", i) for i in range(len(LOGICAL))]


def gen_cases(tier):
    def it():
        for spin in (False, True):
            m = menu(spin)
            objs = objectives(tier, spin)
            if spin:
                lengths = (1,) if tier == "quick" else (1, 2)
            else:
                lengths = (1, 2) if tier == "quick" else (1, 2)
            for fi, f in enumerate(objs):
                quick_len2 = (fi >= len(objs) - len(QUICK_TWO_TERM)) or fi in (1, 6, 11, 20)     # the two-term objectives + 4 one-term ones
                for L in lengths + ((2,) if (spin and tier == "quick" and fi in (1, 6, 9)) else ()):
                    if tier == "quick" and not spin and L == 2 and not quick_len2:
                        continue
                    for seq in itertools.product(range(len(m)), repeat=L):
                        for lt in (True, False):
                            yield {"spin": spin, "objective": rp.jdict(f), "seq": list(seq), "log_trick": lt}
            if tier != "quick" and not spin:
                for f in gen.polys(N, 1, COEFS):
                    for seq in itertools.product(range(len(m)), repeat=3):
                        yield {"spin": spin, "objective": rp.jdict(f), "seq": list(seq), "log_trick": True}
    return it


def logical_holds(name, idx, b):
    B = [b[i].astype(bool) for i in idx]
    if name == "eq_XOR":
        return B[0] == (B[1] ^ B[2])
    if name == "OR":
        return B[0] | B[1]
    if name == "NAND":
        return ~(B[0] & B[1])
    if name == "eq_AND":
        return B[0] == (B[1] & B[2])
    raise ValueError(name)


def scheme_of(case):
    # descending string labels (keys are written in an order that differs from their stored, sorted order, so the
    # model's own enumeration differs from first-appearance-in-sorted-keys) for PCSO and for PCBO with log_trick=False
    return "rstr" if (case["spin"] or not case["log_trick"]) else "str"


def build(case, extra):
    """Build H with the constraints; returns (H, feas table, f table, lam, warned_unsat) or Raised."""
    qv = paths.import_qubovert()
    spin = case["spin"]
    SCH = scheme_of(case)
    labels = gen.labels_for(SCH, N)
    f = gen.relabel(rp.unjdict(case["objective"]), SCH, N)
    ftab = rp.tt(f, labels, spin)
    lam = float(ftab.max() - ftab.min()) + extra
    Model = qv.PCSO if spin else qv.PCBO
    H = Model(f)
    m = menu(spin)
    b, z = rp.bits(N)
    feas = np.ones(1 << N, dtype=bool)
    warned = False
    for j in case["seq"]:
        kind, i = m[j]
        if kind == "cmp":
            rel, D, _lt = (cs.SPIN_MENU if spin else cs.MENU)[i]
            P = gen.relabel(D, SCH, N)
            r, w = cs.add(H, rel, dict(P), lam, case["log_trick"], None)
            feas &= cs.holds(rel, rp.tt(P, labels, spin))
        else:
            name, idx = LOGICAL[i]
            r, w = call(getattr(H, "add_constraint_" + name), *[labels[k] for k in idx], lam=lam)
            feas &= logical_holds(name, idx, b)
        if isinstance(r, Raised):
            return r
        if any("cannot be satisfied" in x for x in w):
            warned = True
    return H, feas, ftab, lam, warned


def check(case, st):
    qv = paths.import_qubovert()
    spin = case["spin"]
    labels = gen.labels_for(scheme_of(case), N)
    for extra in (1, 0.5):
        built = build(case, extra)

        def v(kind, msg, form="-"):
            st.violation("%s|%s|%s" % ("PCSO" if spin else "PCBO", form, kind), dict(case, extra=extra),
                         "C08 %s objective %s, constraints %s, log_trick=%s, lam=range+%s: %s"
                         % ("PCSO" if spin else "PCBO", rp.unjdict(case["objective"]), [menu(spin)[j] for j in case["seq"]], case["log_trick"], extra, msg))
        if isinstance(built, Raised):
            v("raises-" + built.kind, "building the model raised %r" % built.exc)
            continue
        H, feas, ftab, lam, warned = built
        if warned:
            st.skipped["history warns 'cannot be satisfied'"] += 1
            continue
        if not feas.any():
            st.skipped["infeasible history"] += 1
            continue
        Fstar = float(ftab[feas].min())
        if extra == 1 and (~feas).any():
            st.nontrivial += 1
        nbv = H.num_binary_variables
        mp = H.mapping
        inv = {i: l for l, i in mp.items()}
        hlabels = [inv[i] for i in range(nbv)]
        pos = {l: j for j, l in enumerate(labels)}

        def decode_ok(assign):
            """assign: dict over (some of) H's variables in H's domain. Every completion over the missing
            model labels must be feasible with f = F*."""
            free = [l for l in labels if l not in assign]
            for combo in itertools.product((1, -1) if spin else (0, 1), repeat=len(free)):
                full = dict(assign)
                full.update(zip(free, combo))
                a = 0
                for l in labels:
                    bit = (1 - full[l]) // 2 if spin else full[l]
                    a |= int(bit) << pos[l]
                if not feas[a]:
                    return "x = %r is infeasible" % {l: full[l] for l in labels}
                if abs(ftab[a] - Fstar) > 1e-9:
                    return "x = %r has f = %r, constrained optimum is %r" % ({l: full[l] for l in labels}, ftab[a], Fstar)
            return None

        cvars = set()
        for plist in H.constraints.values():
            for P in plist:
                cvars |= {l for k in P for l in k}
        absent = sorted(cvars - set(H.variables), key=repr)

        def check_solution(sol, form, what):
            bad = decode_ok(sol)
            if bad:
                v("not-feasible-optimal", "%s %r: %s" % (what, sol, bad), form)
                return False
            ok, _w = call(H.is_solution_valid, sol)
            if isinstance(ok, Raised) and ok.kind == "KeyError" and absent and ok.exc.args and ok.exc.args[0] in absent:
                # pre-state class: a recorded constraint mentions a variable that no term of the model mentions
                v("absent-constraint-variable-is_solution_valid-KeyError",
                  "%s %r: a recorded constraint mentions %r, which no term of the model mentions (variables %r), and is_solution_valid raises %r"
                  % (what, sol, absent, sorted(H.variables, key=repr), ok.exc), form)
                # keep checking modulo that finding: every completion over the absent variables must be valid
                for combo in itertools.product((1, -1) if spin else (0, 1), repeat=len(absent)):
                    full = dict(sol)
                    full.update(zip(absent, combo))
                    ok2, _w = call(H.is_solution_valid, full)
                    if isinstance(ok2, Raised) or not ok2:
                        v("is_solution_valid", "%s %r completed to %r is feasible-optimal by the reference but is_solution_valid gives %r" % (what, sol, full, ok2), form)
                        return False
            elif isinstance(ok, Raised) or not ok:
                v("is_solution_valid", "%s %r is feasible-optimal by the reference but is_solution_valid gives %r" % (what, sol, ok), form)
                return False
            ra, _w = call(H.remove_ancilla_from_solution, sol)
            want = {k: val for k, val in sol.items() if not (isinstance(k, str) and k.startswith("__a"))}
            if isinstance(ra, Raised) or ra != want:
                v("remove_ancilla", "remove_ancilla_from_solution(%r) = %r, expected %r" % (sol, ra, want), form)
                return False
            return True

        # ---- solve_bruteforce
        st.transitions += 1
        st.traces += 1
        sol, _w = call(H.solve_bruteforce)
        if isinstance(sol, Raised) and sol.kind == "KeyError" and absent and sol.exc.args and sol.exc.args[0] in absent:
            v("absent-constraint-variable-solve_bruteforce-KeyError",
              "a recorded constraint mentions %r, which no term of the model mentions (variables %r), and solve_bruteforce() raises %r"
              % (absent, sorted(H.variables, key=repr), sol.exc), "solve_bruteforce")
        elif isinstance(sol, Raised):
            v("raises-" + sol.kind, "solve_bruteforce() raised %r" % sol.exc, "solve_bruteforce")
        else:
            if set(sol) != set(H.variables):
                v("keyset", "solve_bruteforce() keys %r, variables %r" % (sorted(sol, key=repr), sorted(H.variables, key=repr)), "solve_bruteforce")
            else:
                check_solution(sol, "solve_bruteforce", "solve_bruteforce() =")
        # ---- H itself as an unconstrained problem, and the four forms
        forms = [("self", None)] + [(t, t in ("to_puso", "to_quso")) for t in ("to_pubo", "to_puso", "to_qubo", "to_quso")]
        for form, tspin in forms:
            st.transitions += 1
            st.traces += 1
            if form == "self":
                D = {tuple(mp[l] for l in k): val for k, val in H.items()}
                tspin = spin
            else:
                D, _w = call(getattr(H, form))
                if isinstance(D, Raised):
                    v("raises-" + D.kind, "%s() raised %r" % (form, D.exc), form)
                    continue
            used = {l for k in D for l in k}
            L = max(nbv, 1 + max(used, default=-1))
            if L > MAXL:
                st.skipped["form with more than %d labels" % MAXL] += 1
                continue
            st.outcomes["%s labels=%d" % (form, L)] += 1
            tab = rp.tt(D, list(range(L)), tspin)
            mn = float(tab.min())
            if abs(mn - Fstar) > 1e-9:
                v("minimum", "minimum of the form is %r, constrained optimum %r" % (mn, Fstar), form)
                continue
            args = np.nonzero(np.abs(tab - mn) <= 1e-9)[0]
            # layer (a): all labels 0..L-1; group arg-mins by their projection on the model labels (< nbv)
            groups = {}
            for a in args:
                a = int(a)
                g = a & ((1 << nbv) - 1)
                if g not in groups:
                    groups[g] = [a, a]
                else:
                    groups[g][1] = a
            okall = True
            for g, (a1, a2) in groups.items():
                for a in {a1, a2}:
                    s = rp.assignment(a, list(range(L)), tspin)
                    if form == "self":
                        conv = {inv[i]: s[i] for i in range(nbv)}
                    else:
                        conv, _w = call(H.convert_solution, s, tspin)
                        st.transitions += 1
                        if isinstance(conv, Raised):
                            v("convert_solution-raises-" + conv.kind, "convert_solution(%r, spin=%s) raised %r" % (s, tspin, conv.exc), form)
                            okall = False
                            break
                    if not check_solution(conv, form, "arg-min %r converts to" % (s,)):
                        okall = False
                        break
                if not okall:
                    break
            if not okall or form == "self":
                continue
            # layer (b): arg-mins over the form's OWN variables (what any solver hands back)
            missing = [i for i in range(nbv) if i not in used]
            if missing:
                own = sorted(used)
                seen = set()
                for a in args:
                    s = rp.assignment(int(a), list(range(L)), tspin)
                    s_own = {i: s[i] for i in own}
                    key = tuple(s_own.values())
                    if key in seen:
                        continue
                    seen.add(key)
                    conv, _w = call(H.convert_solution, s_own, tspin)
                    st.transitions += 1
                    if isinstance(conv, Raised):
                        v("stale-variable-convert_solution-raises-" + conv.kind,
                          "the form %s does not mention label(s) %r of the model's %d variables (mapping %r): its minimiser %r over its own variables makes convert_solution raise %r"
                          % (short(dict(D), 160), missing, nbv, mp, s_own, conv.exc), form)
                        break
                    if not check_solution(conv, form, "own-variable arg-min %r converts to" % (s_own,)):
                        break


def run(ctx):
    ctx.bounds = {"model_variables": N, "max_labels_per_form": MAXL,
                  "objectives": {"PCBO": len(objectives(ctx.tier, False)), "PCSO": len(objectives(ctx.tier, True))},
                  "menu": {"PCBO": "21 comparison (C02 menu) + %s" % [l[0] for l in LOGICAL], "PCSO": "15 comparison (C03 menu)"},
                  "history_length": {"PCBO": "1 for all objectives, 2 for the two-term and four one-term objectives" if ctx.quick else "1-2 for all objectives, 3 for one-term objectives", "PCSO": "1 (2 for three one-term objectives)" if ctx.quick else "1-2"},
                  "weights": "(max f - min f) + 1 and + 0.5", "log_trick": [True, False],
                  "labels": "ascending strings for PCBO with log_trick=True, descending strings (keys written in unsorted order) for PCBO with log_trick=False and all PCSO cases"}
    ctx.rule = "case = (model kind, objective, ordered constraint history, log_trick), two weights each; non-trivial = some assignment is infeasible"
    ctx.exhaustive = True
    explore_cases(ctx, gen_cases(ctx.tier), check, label="C08")


def replay(case):
    st = Stats()
    check({k: case[k] for k in ("spin", "objective", "seq", "log_trick")}, st)
    return [(s, m) for s, c, m in st.viol]
