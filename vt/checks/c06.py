"""C06 -- logical constraint methods penalise exactly the violating assignments.

Engine A: 16 methods x all operand tuples (with repetition) from an 11-element operand alphabet
up to arity 3 / 4 x lam x label scheme; the added polynomial is tabulated over the 4 labels.
"""
import itertools

import numpy as np

from .. import gen, paths
from ..common import call, Raised, short, snap
from ..ref import poly as rp
from ..runner import explore_cases, Stats

ID = "C06"
META = {
    "engine": "smallscope",
    "technique": "exhaustive enumeration of method x operand tuples (labels and nested expressions, with repetition) x lam x labels; full truth table of the added penalty",
    "text": "For each of the 16 add_constraint_G / add_constraint_eq_G methods, every operand tuple up to total arity 3 (quick) / 4 (thorough) (one more over a reduced alphabet) drawn with "
            "repetition from {4 labels, NOT(a), AND(b,c), OR(a,d), XOR(b,d), a PUBO dict, the constant expressions 1 and 0}, lam in {1, 2.5, 0.5}: the terms "
            "added to an empty PCBO are tabulated over all 16 assignments and must be 0 where the gate relation holds and >= lam elsewhere, mention no "
            "ancilla, and is_solution_valid must agree with the relation. Histories: <=1 (quick) / <=2 (thorough) constraints from a 10-call menu (labels and AND-expression operands) on a model A, a model B derived from A "
            "(copy, PCBO(A), A+0, 0+A, A-0, A*1), then <=1 / <=2 further constraints each on A or B; each model's penalty table and is_solution_valid must reflect exactly the constraints of its own lineage.",
    "note": "Bounded: 4 variables, arity <= 3/4, operand alphabet of 12. Reference gates are python booleans on reference tables.",
}

OPERANDS = [["lab", 0], ["lab", 1], ["lab", 2], ["lab", 3], ["NOT", 0], ["AND", 1, 2], ["OR", 0, 3], ["XOR", 1, 3],
            ["dict", 2], ["const", 1], ["const", 0],
            ["named-and", 1, 2]]      # a model object that carries the NAME of variable b but whose value is b AND c (in-place product)
GATES = ["AND", "OR", "XOR", "NAND", "NOR", "XNOR"]
LAMS = (1, 2.5, 0.5)
NV = 4


REDUCED = [0, 1, 2, 3, 4, 5, 11]      # indices into OPERANDS used at the largest arity


def arities(tier, extra=0):
    amax = (3 if tier == "quick" else 4) + extra
    out = []
    for g in GATES:
        for n in range(1, amax + 1):
            out.append((g, False, n))
        mn = 1 if g in ("XOR", "XNOR") else 2
        for n in range(mn, amax):       # a + n operands, total arity n+1 <= amax
            out.append((g, True, n))
    out += [("NOT", False, 1), ("BUFFER", False, 1), ("NOT", True, 1), ("BUFFER", True, 1)]
    return out


def gen_cases(tier):
    schemes = ("str", "gap", "tuple") if tier == "quick" else ("str", "gap", "tuple", "mixed")

    def it():
        for g, eq, n in arities(tier):
            total = n + (1 if eq else 0)
            for combo in itertools.product(range(len(OPERANDS)), repeat=total):
                for sch in schemes:
                    yield {"gate": g, "eq": eq, "operands": list(combo), "scheme": sch}
        # one more operand over the reduced alphabet (reaches the n > 2 branches of the eq_ methods in quick)
        amax = (3 if tier == "quick" else 4) + 1
        for g, eq, n in arities(tier, 1):
            total = n + (1 if eq else 0)
            if total != amax:
                continue
            for combo in itertools.product(REDUCED, repeat=total):
                yield {"gate": g, "eq": eq, "operands": list(combo), "scheme": schemes[0]}
        # histories: constraints added to a model that already holds some, and to models derived from it (copy / PCBO(H) / arithmetic)
        pre_max, post_max = (1, 1) if tier == "quick" else (2, 2)
        M = range(len(SEQ_MENU))
        for npre in range(0, pre_max + 1):
            for pre in itertools.product(M, repeat=npre):
                for derive in DERIVE:
                    for npost in range(1, post_max + 1):
                        for post in itertools.product(M, repeat=npost):
                            for targets in itertools.product((0, 1), repeat=npost):
                                yield {"part": "seq", "pre": list(pre), "derive": derive, "post": [list(x) for x in zip(post, targets)]}
    return it


# (gate, eq, operand label indices): one call per family, over 4 labels
SEQ_MENU = [("OR", False, (0, 1)), ("AND", True, (2, 0, 1)), ("XOR", False, (0, 2)), ("NOT", False, (3,)), ("XOR", True, (0, 1, 2)),
            ("NAND", False, (1, 3)), ("OR", True, (3, 0, 1)), ("BUFFER", True, (2, 3)),
            # expression operands: these reach add_constraint_eq_zero with the shape z - x y (its special form) on a non-empty model
            ("BUFFER", True, (2, ("AND", 0, 1))), ("XOR", True, (3, ("AND", 0, 2)))]
DERIVE = ["copy", "ctor", "add0", "radd0", "sub0", "mul1"]


def check_seq(case, st):
    """Two models: A gets the `pre` constraints, B is derived from A, then each `post` constraint goes to A (0) or B (1).
    Each model must penalise / report exactly the constraints added along its own lineage."""
    qv = paths.import_qubovert()
    labels = gen.labels_for("str", NV)
    b, _ = rp.bits(NV)

    def rel(i):
        g, eq, idx = SEQ_MENU[i]
        refs = [(b[j].astype(bool) if isinstance(j, int) else (b[j[1]].astype(bool) & b[j[2]].astype(bool))) for j in idx]
        return (refs[0] == ref_gate(g, refs[1:])) if eq else ref_gate(g, refs)

    def apply(H, i):
        g, eq, idx = SEQ_MENU[i]
        args = [(labels[j] if isinstance(j, int) else qv.sat.AND(labels[j[1]], labels[j[2]])) for j in idx]
        return call(getattr(H, "add_constraint_%s%s" % ("eq_" if eq else "", g)), *args, lam=1)[0]
    st.nontrivial += 1

    def v(kind, msg):
        st.violation("seq|%s|%s" % (kind, case["derive"]), case,
                     "C06 A = PCBO() + %s; B = %s(A); then %s: %s" % ([SEQ_MENU[i] for i in case["pre"]], case["derive"],
                                                                    [("A" if t == 0 else "B", SEQ_MENU[i]) for i, t in case["post"]], msg))
    A = qv.PCBO()
    for i in case["pre"]:
        r = apply(A, i)
        st.transitions += 1
        if isinstance(r, Raised):
            v("raises-" + r.kind, "raised %r" % r.exc)
            return
    d = case["derive"]
    r, _w = call({"copy": lambda: A.copy(), "ctor": lambda: qv.PCBO(A), "add0": lambda: A + 0, "radd0": lambda: 0 + A,
                  "sub0": lambda: A - 0, "mul1": lambda: A * 1}[d])
    st.transitions += 1
    if isinstance(r, Raised):
        v("raises-" + r.kind, "deriving raised %r" % r.exc)
        return
    B = r
    if B is A or type(B) is not qv.PCBO:
        return      # C05 / C19 territory: nothing to compare here
    lineage = [list(case["pre"]), list(case["pre"])]
    models = [A, B]
    for i, t in case["post"]:
        r = apply(models[t], i)
        st.transitions += 1
        st.traces += 1
        if isinstance(r, Raised):
            v("raises-" + r.kind, "raised %r" % r.exc)
            return
        lineage[t].append(i)
    for name, H, lin in (("A", A, lineage[0]), ("B", B, lineage[1])):
        holds = np.ones(1 << NV, dtype=bool)
        for i in lin:
            holds &= rel(i)
        used = {l for k in H for l in k}
        if not used <= set(labels) or H.num_ancillas != 0:
            v("foreign-variable", "%s mentions %r, num_ancillas %r" % (name, sorted(used - set(labels), key=repr), H.num_ancillas))
            continue
        F = rp.tt(H, labels, False)
        bad0 = np.nonzero(holds & (np.abs(F) > 1e-9))[0]
        bad1 = np.nonzero(~holds & (F < 1 - 1e-9))[0]
        if len(bad0):
            a = int(bad0[0])
            v("nonzero-on-satisfying", "all constraints of %s hold at %r but its penalty = %r" % (name, rp.assignment(a, labels, False), F[a]))
        if len(bad1):
            a = int(bad1[0])
            v("below-lam-on-violating", "a constraint of %s fails at %r but its penalty = %r < lam" % (name, rp.assignment(a, labels, False), F[a]))
        for a in range(1 << NV):
            x = rp.assignment(a, labels, False)
            rv, _w = call(H.is_solution_valid, x)
            if isinstance(rv, Raised) or bool(rv) != bool(holds[a]):
                v("is_solution_valid", "%s.is_solution_valid(%r) = %r, but the constraints added to %s (%s) are %s there" % (
                    name, x, rv, name, [SEQ_MENU[i] for i in lin], "satisfied" if holds[a] else "violated"))
                break


def ref_operand(od, b):
    k = od[0]
    if k == "lab" or k == "dict":
        return b[od[1]].astype(bool)
    if k == "NOT":
        return ~b[od[1]].astype(bool)
    if k in ("AND", "named-and"):
        return b[od[1]].astype(bool) & b[od[2]].astype(bool)
    if k == "OR":
        return b[od[1]].astype(bool) | b[od[2]].astype(bool)
    if k == "XOR":
        return b[od[1]].astype(bool) ^ b[od[2]].astype(bool)
    if k == "const":
        return np.full(1 << NV, bool(od[1]))
    raise ValueError(od)


def real_operand(od, labels):
    qv = paths.import_qubovert()
    sat = qv.sat
    k = od[0]
    if k == "lab":
        return labels[od[1]]
    if k == "dict":
        return {(labels[od[1]],): 1}
    if k == "NOT":
        return sat.NOT(labels[od[1]])
    if k == "AND":
        return sat.AND(labels[od[1]], labels[od[2]])
    if k == "OR":
        return sat.OR(labels[od[1]], labels[od[2]])
    if k == "XOR":
        return sat.XOR(labels[od[1]], labels[od[2]])
    if k == "const":
        return {(): 1} if od[1] else {}
    if k == "named-and":
        e = qv.boolean_var(labels[od[1]])
        e *= qv.boolean_var(labels[od[2]])
        return e
    raise ValueError(od)


def ref_gate(g, vals):
    if g in ("AND", "NAND"):
        r = np.logical_and.reduce(vals)
    elif g in ("OR", "NOR"):
        r = np.logical_or.reduce(vals)
    elif g in ("XOR", "XNOR"):
        r = np.logical_xor.reduce(vals)
    elif g in ("BUFFER", "NOT"):
        r = vals[0]
    if g in ("NAND", "NOR", "XNOR", "NOT"):
        r = ~r
    return r


def check(case, st):
    if case.get("part") == "seq":
        return check_seq(case, st)
    qv = paths.import_qubovert()
    labels = gen.labels_for(case["scheme"], NV)
    b, _ = rp.bits(NV)
    g, eq = case["gate"], case["eq"]
    ods = [OPERANDS[i] for i in case["operands"]]
    refs = [ref_operand(od, b) for od in ods]
    if eq:
        holds = refs[0] == ref_gate(g, refs[1:])
    else:
        holds = ref_gate(g, refs)
    meth = "add_constraint_%s%s" % ("eq_" if eq else "", g)
    if any(od[0] not in ("lab",) for od in ods):
        st.nontrivial += 1
    st.outcomes["relation holds on %d/16" % int(holds.sum())] += 1
    for lam in LAMS:
        args = [real_operand(od, labels) for od in ods]
        before = [snap(a) for a in args]
        H = qv.PCBO()
        st.transitions += 1
        st.traces += 1
        r, _w = call(getattr(H, meth), *args, lam=lam)

        def v(kind, msg):
            st.violation("%s|%s|arity%d" % (meth, kind, len(ods)), dict(case, lam=lam),
                         "C06 PCBO().%s(%s, lam=%r) [labels %s]: %s" % (meth, ", ".join(map(str, ods)), lam, labels, msg))
        if isinstance(r, Raised):
            v("raises-" + r.kind, "raised %r" % r.exc)
            continue
        if r is not H:
            v("return", "did not return self")
        used = {l for k in H for l in k}
        if not used <= set(labels):
            v("foreign-variable", "added terms mention %r (ancilla or unknown variable)" % sorted(used - set(labels), key=repr))
            continue
        F = rp.tt(H, labels, False)
        bad0 = np.nonzero(holds & (np.abs(F) > 1e-9))[0]
        bad1 = np.nonzero(~holds & (F < lam - 1e-9))[0]
        if len(bad0):
            a = int(bad0[0])
            v("nonzero-on-satisfying", "relation holds at %r but penalty = %r" % (rp.assignment(a, labels, False), F[a]))
        if len(bad1):
            a = int(bad1[0])
            v("below-lam-on-violating", "relation fails at %r but penalty = %r < lam" % (rp.assignment(a, labels, False), F[a]))
        for a in range(1 << NV):
            x = rp.assignment(a, labels, False)
            rv, _w = call(H.is_solution_valid, x)
            if isinstance(rv, Raised) or bool(rv) != bool(holds[a]):
                v("is_solution_valid", "is_solution_valid(%r) = %r, relation %s" % (x, rv, bool(holds[a])))
                break
        if [snap(a) for a in args] != before:
            v("operand-mutated", "an operand expression was modified")
        if H.num_ancillas != 0:
            v("ancilla-count", "num_ancillas = %r" % H.num_ancillas)


def run(ctx):
    ctx.bounds = {"variables": NV, "max_total_arity": "3 over the full alphabet + 4 over the first 6 operands" if ctx.quick else "4 over the full alphabet + 5 over the first 6 operands", "operand_alphabet": OPERANDS, "lams": LAMS,
                  "schemes": ("str", "gap", "tuple") if ctx.quick else ("str", "gap", "tuple", "mixed"), "methods": 16,
                  "histories": {"menu": [list(map(str, m)) for m in SEQ_MENU], "derivations": DERIVE,
                                "constraints_before_derivation": "<= %d" % (1 if ctx.quick else 2), "constraints_after": "<= %d, each on either model" % (1 if ctx.quick else 2)}}
    ctx.rule = "case = (method, operand tuple, label scheme), each with both lam values; non-trivial = at least one operand is an expression, not a label"
    explore_cases(ctx, gen_cases(ctx.tier), check, label="C06")


def replay(case):
    st = Stats()
    if case.get("part") == "seq":
        check_seq({k: case[k] for k in ("part", "pre", "derive", "post")}, st)
    else:
        check({k: case[k] for k in ("gate", "eq", "operands", "scheme")}, st)
    return [(s, m) for s, c, m in st.viol]
