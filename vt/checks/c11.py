"""C11 -- annealers return well-formed results whose values match their states.

Engine C, deviation-bounded: for every configuration (model x container x function x schedule x
initial state x order x num_anneals) all RNG tapes within d deviations from the all-default tape are
executed on the real kernels (scripted build); every configuration is also run on the stock build with
real seeds (in a sub-process).  Every execution is checked against the reference evaluation of the
INPUT model.
"""
import itertools
import json
import os
import subprocess
import sys
import warnings

from .. import gen, paths
from ..common import call, Raised, short
from ..ref import poly as rp
from ..runner import Stats, pmap, NWORKERS, HarnessError, explore_cases

ID = "C11"
META = {
    "engine": "tapedfs",
    "technique": "stateless exploration of all scripted-RNG tapes within a deviation bound, on the real kernels, for an exhaustive product of small call configurations; stock-build runs with real seeds; reference evaluation of the input model on every result",
    "text": "Configurations: 8 base models (empty, constant, single variable, linear with offset, quadratic, label gaps, cubic, couplings inserted in shuffled order) x every accepted container and label scheme x the four functions x 8 "
            "schedules (linear/geometric with durations and temperature ranges, [], [0], [0,0], explicit) x 4 initial states x both orders x num_anneals. Scripted build: all tapes within 1 deviation "
            "(quick; 2 on a reduced set) / 2 deviations (thorough; 3 on a reduced set) from the default tape, extreme words and all site indices. Stock build: num_anneals in {-1,0,1,3} x seeds "
            "{None,0,7}. Every result: count, exact key set (all indices up to max_index for native Matrix input), value domain, spin flag, value = reference evaluation incl. offset, best minimal.",
    "note": "Bounded: <=4 labels, <=3 sweeps, deviation bound as stated (not all tapes). D3 (empty/constant Matrix input -> TypeError) was found here and fixed.",
}

BASE = [
    ("empty", {}),
    ("const", {(): 3}),
    ("single", {(0,): -1}),
    ("linear", {(0,): 1, (1,): -1, (): 2}),
    ("quad", {(0, 1): -1, (1, 2): 1, (0,): 0.5}),
    ("gap", {(0, 3): 1, (3,): -1}),
    ("cubic", {(0, 1, 2): 1, (0,): -1}),
    # terms inserted in non-lexicographic order (the neighbour lists handed to the kernel follow insertion order)
    # documented stale state: a term is cancelled without refresh(), the model still reports its variable
    ("stale", {(0,): 1, (): 3}),
    # the same with a variable in the MIDDLE of the enumeration cancelled (the other terms keep their, now larger, indices)
    ("stale-mid", {(0,): 1, (1,): 2, (2,): -1, (0, 2): 0.5, (): 0.5}),
    ("shuffled", {(1, 2): 2, (0, 1): -1, (2, 3): 0.5, (0, 3): 3, (1, 3): -2, (2,): 1, (0,): -0.5}),
    # value slices (few configurations each, see VALUE_ONLY): coefficients that are not exact in single precision, and unit terms
    # next to a weight of 2^26 (the reported value must be the double-precision evaluation)
    ("nondyadic2", {(0, 1): 0.1, (0,): 0.3, (1, 2): -0.7, (): 0.2}),
    ("nondyadic3", {(0, 1, 2): 0.1, (0,): 0.3, (1, 2): 0.7, (): 0.2}),
    ("bigweight2", {(0, 1): 2 ** 26, (0,): 1, (1, 2): 1, (): 3}),
    ("bigweight3", {(0, 1, 2): 3, (0, 1): 2 ** 26, (0,): 1, (1, 2): 1}),
]
VALUE_ONLY = ("nondyadic2", "nondyadic3", "bigweight2", "bigweight3")
SCHEDULES = [
    ("geom-default", {"anneal_duration": 2}),
    ("linear-2-1", {"anneal_duration": 3, "temperature_range": (2, 1), "schedule": "linear"}),
    ("geom-1-1", {"anneal_duration": 1, "temperature_range": (1, 1)}),
    ("linear-1-0", {"anneal_duration": 2, "temperature_range": (1, 0), "schedule": "linear"}),
    ("empty-list", {"schedule": []}),
    ("zero", {"schedule": [0]}),
    ("zero-zero", {"schedule": [0, 0]}),
    ("explicit", {"schedule": [2.0, 0.5]}),
]
INITS = ("none", "first", "last", "alt")
NATIVE = {"anneal_quso": ("QUSOMatrix",), "anneal_puso": ("QUSOMatrix", "PUSOMatrix"), "anneal_qubo": ("QUBOMatrix",), "anneal_pubo": ("PUBOMatrix",)}


def configs(tier):
    for kind in ("spin", "bool"):
        conts = gen.SPIN_CONTAINERS if kind == "spin" else gen.BOOL_CONTAINERS
        for bname, D in BASE:
            deg = max((len(k) for k in D), default=0)
            for cont in list(conts) + (["QUSO-setmap", "PUSO-setrev"] if kind == "spin" else ["QUBO-setmap", "PUBO-setrev"]):
                if cont.split("-")[0] in gen.DEG2 and deg > 2:
                    continue
                if bname.startswith("stale") and (cont == "dict" or "-set" in cont):
                    continue
                schemes = ("int",) if cont in gen.MATRIX else (("str", "gap", "tuple") if "-set" not in cont else ("int",))
                for sch in schemes:
                    fns = (["anneal_quso"] if deg <= 2 else []) + ["anneal_puso"] if kind == "spin" else (["anneal_qubo"] if deg <= 2 else []) + ["anneal_pubo"]
                    for fn in fns:
                        for sname, _kw in SCHEDULES:
                            if bname in VALUE_ONLY and (sname not in ("geom-default", "zero") or sch not in ("int", "str")):
                                continue
                            for init in (INITS if bname not in VALUE_ONLY else ("none", "alt")):
                                for in_order in (True, False):
                                    yield {"kind": kind, "base": bname, "container": cont, "scheme": sch, "fn": fn, "schedule": sname, "init": init, "in_order": in_order}


def setup(case):
    qv = paths.import_qubovert()
    import qubovert.sim as sim
    D0 = dict(BASE)[case["base"]]
    n = 1 + max((i for k in D0 for i in k), default=-1)
    D = gen.relabel(D0, case["scheme"], max(n, 1))
    M = dict(D) if case["container"] == "dict" else gen.build(case["container"].split("-")[0], D)
    if "-set" in case["container"]:
        gen.permute_mapping(M, case["container"].split("-")[1])     # user-chosen enumeration (documented set_mapping API)
    spin = case["kind"] == "spin"
    reported = None
    if case["base"].startswith("stale"):
        for k in [k for k in D if k and (case["base"] == "stale" or k == (gen.labels_for(case["scheme"], 3)[1],))]:
            M[k] -= D[k]
            del D[k]
        reported = sorted(M.variables, key=repr)
    native = case["container"] in NATIVE[case["fn"]]
    if native:
        top = max((l for k in D for l in k), default=-1)
        variables = list(range(top + 1))
    else:
        variables = []
        for k in D:
            for l in k:
                if l not in variables:
                    variables.append(l)
    table = rp.tt(D, variables, spin)
    kw = dict(dict(SCHEDULES)[case["schedule"]])
    init = case["init"]
    if init != "none" and variables:
        nv = len(variables)
        a = {"first": 0, "last": (1 << nv) - 1, "alt": int("01" * nv, 2) & ((1 << nv) - 1)}[init]
        kw["initial_state"] = rp.assignment(a, variables, spin)
    elif init != "none":
        kw["initial_state"] = {}
    kw["in_order"] = case["in_order"]
    if reported is not None:
        # stale model: a result may be keyed by the reported variables or only by the true ones (none); `variables` lists the
        # reported ones and check_result accepts any key set between the two
        if native:
            variables = list(range(max(reported) + 1)) if reported else []
        else:
            variables = reported
        table = rp.tt(D, variables, spin)
        if init != "none":
            nv = len(variables)
            a = {"first": 0, "last": (1 << nv) - 1, "alt": int("01" * nv, 2) & ((1 << nv) - 1)}[init] if nv else 0
            kw["initial_state"] = rp.assignment(a, variables, spin)
    return getattr(sim, case["fn"]), M, D, variables, table, spin, kw, native


def check_result(case, st, res, num_anneals, variables, table, spin, D, how):
    def v(kind, msg):
        st.violation("%s|%s|%s" % (case["fn"], kind, "native-matrix" if case["container"] in NATIVE[case["fn"]] else ("dict" if case["container"] == "dict" else "relabelled")),
                     dict(case, how=how, num_anneals=num_anneals),
                     "C11 %s(%s %s, %s, init=%s, in_order=%s, num_anneals=%s) [%s]: %s"
                     % (case["fn"], case["container"], short(D, 120), case["schedule"], case["init"], case["in_order"], num_anneals, how, msg))
    if isinstance(res, Raised):
        v("raises-" + res.kind, "raised %r" % res.exc)
        return
    if type(res).__name__ != "AnnealResults":
        v("type", "returned %s" % type(res).__name__)
        return
    want_n = max(num_anneals, 0)
    if len(res) != want_n:
        v("count", "returned %d results, expected %d" % (len(res), want_n))
        return
    idx = {l: j for j, l in enumerate(variables)}
    vals = (1, -1) if spin else (0, 1)
    best = None
    for r in res:
        s = r.state
        if set(s) != set(variables) and not (case["base"].startswith("stale") and set(s) <= set(variables) and set(s) >= {l for k in D for l in k}):
            v("keyset", "state keys %r, model variables %r" % (sorted(s, key=repr), variables))
            return
        if any(x not in vals for x in s.values()):
            v("domain", "state %r has values outside %r" % (s, vals))
            return
        if r.spin != spin:
            v("spin-flag", "spin flag %r" % r.spin)
            return
        a = 0
        for l, x in s.items():
            bit = (1 - x) // 2 if spin else x
            a |= int(bit) << idx[l]
        if abs(r.value - table[a]) > 1e-9 * (1 + abs(table[a])):
            v("value", "state %r reported with value %r, the model evaluates to %r there" % (s, r.value, table[a]))
            return
        best = r.value if best is None else min(best, r.value)
    if want_n:
        if res.best is None or abs(res.best.value - best) > 1e-12:
            v("best", "best.value = %r, smallest value among the results %r" % (None if res.best is None else res.best.value, best))
    elif res.best is not None:
        v("best", "no results but best = %r" % (res.best,))


def check_scripted(case, st):
    from .. import tape as tp, tapedfs
    f, M, D, variables, table, spin, kw, native = setup(case)
    d = case["d"]
    for num_anneals in (1, 2):
        def fn():
            with warnings.catch_warnings():
                warnings.simplefilter("ignore")
                try:
                    return f(M, num_anneals=num_anneals, seed=0, **kw)
                except Exception as e:  # noqa
                    return Raised(e)
        nontriv = [0]

        def visit(tape, res, log):
            st.traces += 1
            st.states += 1
            if tape:
                nontriv[0] += 1
            check_result(case, st, res, num_anneals, variables, table, spin, D, "scripted tape %r" % (tape,))
        try:
            runs = tapedfs.enumerate_deviations(fn, d, visit)
        except tapedfs.ReplayDivergence:
            # the call's behaviour depends on something other than its arguments and the generator (C12 / C17 report that);
            # every result seen so far was judged, the rest of this configuration is not explored
            st.outcomes["scripted: same tape prefix, different requests -> configuration abandoned"] += 1
            runs = 1
        st.transitions += runs
        st.outcomes["%d executions" % (1 if runs == 1 else 10 ** len(str(runs - 1)))] += 1
        if nontriv[0]:
            st.nontrivial += 1
    st.states -= 1


def check_plain(case, st):
    f, M, D, variables, table, spin, kw, native = setup(case)
    for num_anneals in (-1, 0, 1, 3):
        for seed in (None, 0, 7):
            with warnings.catch_warnings():
                warnings.simplefilter("ignore")
                try:
                    res = f(M, num_anneals=num_anneals, seed=seed, **kw)
                except Exception as e:  # noqa
                    res = Raised(e)
            st.traces += 1
            st.transitions += 1
            check_result(case, st, res, num_anneals, variables, table, spin, D, "stock build seed=%r" % (seed,))
    st.nontrivial += 1


PLAIN_SCRIPT = r'''
import sys, json
sys.path.insert(0, %(verif)r)
from vt import paths
paths.import_qubovert("plain")
from vt.checks import c11
from vt.runner import Stats
st = Stats()
for i, case in enumerate(c11.configs(%(tier)r)):
    if i %% %(n)d != %(k)d:
        continue
    st.evaluations += 1
    c11.check_plain(case, st)
print("PLAIN " + json.dumps({"evaluations": st.evaluations, "traces": st.traces, "transitions": st.transitions, "nontrivial": st.nontrivial,
                             "nviol": st.nviol, "viol": st.viol[:200]}, default=str))
'''


def plain_part(ctx):
    n = NWORKERS

    def work(k):
        # MALLOC_PERTURB_: glibc fills every fresh malloc block with a non-zero byte, so a result read from memory the kernel
        # wrapper never initialised is garbage on every run instead of whatever the heap happened to hold
        p = subprocess.run([sys.executable, "-c", PLAIN_SCRIPT % {"verif": paths.VERIF, "tier": ctx.tier, "n": n, "k": k}],
                           capture_output=True, text=True, env=dict(os.environ, PYTHONHASHSEED="0", MALLOC_PERTURB_="165"), cwd=paths.VERIF)
        line = [l for l in p.stdout.splitlines() if l.startswith("PLAIN ")]
        if not line:
            raise HarnessError("stock-build worker failed (exit %s): %s\n%s" % (p.returncode, p.stdout[-800:], p.stderr[-3000:]))
        return json.loads(line[0][6:])
    for r in pmap(work, range(n)):
        st = ctx.stats
        st.evaluations += r["evaluations"]
        st.states += r["evaluations"]
        st.traces += r["traces"]
        st.transitions += r["transitions"]
        st.nontrivial += r["nontrivial"]
        st.nviol += r["nviol"]
        for sig, case, msg in r["viol"]:
            st.viol.append((sig, case, msg))
    ctx.log("stock-build part done")


def gen_cases(tier):
    def it():
        for case in configs(tier):
            reduced = case["schedule"] in ("geom-default", "explicit") and case["init"] in ("none", "alt")
            if tier == "quick":
                yield dict(case, d=2 if (reduced and case["base"] in ("quad", "gap", "cubic", "shuffled") and case["scheme"] != "gap") else 1)
            else:
                yield dict(case, d=3 if (reduced and case["base"] in ("quad", "gap", "cubic", "shuffled") and case["scheme"] != "gap") else 2)
    return it


def run(ctx):
    from .. import tape as tp
    tp.lib()
    ctx.bounds = {"base_models": [[b[0], rp.jdict(b[1])] for b in BASE], "schedules": [[s[0], {k: (list(v) if isinstance(v, tuple) else v) for k, v in s[1].items()}] for s in SCHEDULES],
                  "initial_states": INITS, "num_anneals": {"scripted": [1, 2], "stock": [-1, 0, 1, 3]}, "seeds_stock": [None, 0, 7],
                  "deviation_bound": "1 (2 on the reduced set)" if ctx.quick else "2 (3 on the reduced set)", "word_alternatives": ["0 (default)", "2^31-1", "2^31", "2^32-1"],
                  "site_alternatives": "all"}
    ctx.rule = "case = one call configuration; states = distinct tapes executed; non-trivial = configuration in which at least one random draw was deviated"
    ctx.exhaustive = True
    explore_cases(ctx, gen_cases(ctx.tier), check_scripted, label="C11 scripted", nshards=NWORKERS * 8)
    plain_part(ctx)


def replay(case):
    st = Stats()
    how = case.get("how", "")
    base = {k: case[k] for k in ("kind", "base", "container", "scheme", "fn", "schedule", "init", "in_order")}
    if how.startswith("stock"):
        # replay on the stock build in a sub-process
        script = PLAIN_ONE % {"verif": paths.VERIF, "case": json.dumps(base)}
        p = subprocess.run([sys.executable, "-c", script], capture_output=True, text=True, env=dict(os.environ, PYTHONHASHSEED="0"), cwd=paths.VERIF)
        line = [l for l in p.stdout.splitlines() if l.startswith("PLAIN ")]
        if not line:
            raise HarnessError("stock-build replay failed: %s %s" % (p.stdout[-500:], p.stderr[-2000:]))
        return [(s, m) for s, c, m in json.loads(line[0][6:])["viol"]]
    from .. import tape as tp
    tp.lib()
    check_scripted(dict(base, d=case.get("d", 2)), st)
    return [(s, m) for s, c, m in st.viol]


PLAIN_ONE = r'''
import sys, json
sys.path.insert(0, %(verif)r)
from vt import paths
paths.import_qubovert("plain")
from vt.checks import c11
from vt.runner import Stats
st = Stats()
c11.check_plain(json.loads(%(case)r), st)
print("PLAIN " + json.dumps({"viol": st.viol[:50]}, default=str))
'''
