"""C04 -- boolean/spin conversions, enumerations and exports preserve the function.

Engine A.  Round trips are never used as the oracle (a shared error would cancel): every result is
compared with the reference truth table of the *source*.
"""
import itertools

import numpy as np

from .. import gen, paths
from ..common import call, Raised, short, snap
from ..ref import poly as rp
from ..runner import explore_cases

ID = "C04"
META = {
    "engine": "smallscope",
    "technique": "exhaustive small-scope enumeration of models x containers x raw-dict spellings x labels x conversion entry points x all assignments x solution containers, truth-table comparison",
    "text": "Every source with <=3 variables over {-2,-1,1,3} (quick) / <=4 variables over {-2,1,3} (thorough) and <=3 terms, with/without offset, in every container, raw-dict "
            "spelling (permuted / repeated labels; labelled models are also built from the repeated-label spelling) and label scheme goes through the four conversion functions, every to_* / to_enumerated method that "
            "needs no degree reduction, convert_solution for every assignment as dict/list/tuple in boolean and spin form, and the exports Q, h/J, "
            "qubo_to_matrix (symmetric x array) and matrix_to_qubo (all small matrices); tables, result types and argument immutability are compared "
            "with the reference table of the source.",
    "note": "Bounded: n<=3, integer coefficients. Label alphabet of DESIGN 2.3. Degree reduction is C01's subject and not exercised here.",
}

COEFS = (-2, -1, 1, 3)
OFFSETS = (0, 2)

FUNCS = {
    "bool": [("pubo_to_puso", "PUBOMatrix", "PUSOMatrix", "PUSO", 99), ("qubo_to_quso", "QUBOMatrix", "QUSOMatrix", "QUSO", 2)],
    "spin": [("puso_to_pubo", "PUSOMatrix", "PUBOMatrix", "PUBO", 99), ("quso_to_qubo", "QUSOMatrix", "QUBOMatrix", "QUBO", 2)],
}
METHOD_TYPE = {"to_pubo": "PUBOMatrix", "to_puso": "PUSOMatrix", "to_qubo": "QUBOMatrix", "to_quso": "QUSOMatrix"}
ENUM = {"QUBO": "to_qubo", "QUSO": "to_quso", "PUBO": "to_pubo", "PUSO": "to_puso", "PCBO": "to_pubo", "PCSO": "to_puso"}


def gen_cases(tier):
    maxterms = 3
    n = 3 if tier == "quick" else 4
    coefs = COEFS if tier == "quick" else (-2, 1, 3)

    def it():
        for kind in ("bool", "spin"):
            for D in gen.polys(n, maxterms, coefs, offsets=OFFSETS):
                yield {"kind": kind, "poly": rp.jdict(D), "n": n}
        if tier == "quick":
            yield {"kind": "matrix", "n": 2, "entries": [-1, 0, 2]}
        else:
            yield {"kind": "matrix", "n": 2, "entries": [-1, 0, 2, 0.5]}
            for first in (0, 1, -2):
                yield {"kind": "matrix", "n": 3, "entries": [0, 1, -2], "first": first}
    return it


def spell(D, how, spin):
    if how == "dictperm":
        return {tuple(reversed(k)): v for k, v in D.items()}
    if how == "dictdup":
        # every term is split over TWO keys that denote the same monomial (so the raw dict has duplicate spellings)
        out = {}
        for k, v in D.items():
            if not k:
                out[k] = v
                continue
            alt = tuple(reversed(k)) if len(k) >= 2 else (k * 3 if spin else k * 2)
            out[k] = v + 1
            out[alt] = -1
        return out
    out = {}
    alll = []
    for k in D:
        for l in k:
            if l not in alll:
                alll.append(l)
    for k, v in D.items():
        if not k:
            out[k] = v
            continue
        if spin:
            kk = k * 3 if len(k) == 1 else (k[1], k[0], k[1], k[1]) if len(k) == 2 else k + (k[0], k[0])
            other = [l for l in alll if l not in k]
            if other and len(k) <= 2:
                kk = kk + (other[0], other[0])      # a squared FOREIGN label: three distinct labels in the key, still degree <= 2
        else:
            kk = k * 2 if len(k) == 1 else (k[0], k[1], k[0]) if len(k) == 2 else k + (k[1],)
        out[kk] = v
    return out


def check_matrix(case, st):
    qv = paths.import_qubovert()
    n = case["n"]
    ent = case["entries"]
    b, _ = rp.bits(n)
    X = np.array(b).T  # rows: assignments
    cells = n * n
    for combo in itertools.product(ent, repeat=cells - (1 if "first" in case else 0)):
        vals = ([case["first"]] if "first" in case else []) + list(combo)
        mat = [vals[i * n:(i + 1) * n] for i in range(n)]
        A = np.array(mat, dtype=float)
        ref = np.einsum("ai,ij,aj->a", X, A, X)
        for form, arg in (("list", mat), ("array", A)):
            st.transitions += 1
            st.traces += 1
            r, _w = call(qv.utils.matrix_to_qubo, arg)

            def v(kind, msg):
                st.violation("matrix_to_qubo|%s" % kind, dict(case, matrix=mat, form=form), "C04 matrix_to_qubo(%s %s): %s" % (form, mat, msg))
            if isinstance(r, Raised):
                v("raises-" + r.kind, "raised %r" % r.exc)
                continue
            if type(r).__name__ != "QUBOMatrix":
                v("type", "returned %s" % type(r).__name__)
                continue
            if not rp.tables_equal(rp.tt(r, range(n), False), ref):
                v("value", "result %s does not equal x^T M x" % short(dict(r)))
        st.states += 1
        st.nontrivial += 1


def check(case, st):
    if case["kind"] == "matrix":
        return check_matrix(case, st)
    qv = paths.import_qubovert()
    spin = case["kind"] == "spin"
    N = case["n"]
    D0 = rp.unjdict(case["poly"])
    deg = max((len(k) for k in D0), default=0)
    if len(D0) - (() in D0) >= 1:
        st.nontrivial += 1
    conts = list(gen.SPIN_CONTAINERS if spin else gen.BOOL_CONTAINERS) + ["dictperm", "dictrep", "dictdup"]
    if len(D0) >= 2:
        conts += ["PUSO-rev", "QUSO-rev"] if spin else ["PUBO-rev", "QUBO-rev"]     # same terms, opposite insertion order
    # labelled models built from a raw dict whose keys repeat labels (the labels must still be registered once each)
    conts += ["PUSO-rep", "QUSO-rep", "PCSO-rep"] if spin else ["PUBO-rep", "QUBO-rep", "PCBO-rep"]
    # one variable spelled with equal labels of different types (1 / True / 1.0): one variable, but two stored keys for one monomial
    conts += ["PUSO-mixtype", "PCSO-mixtype"] if spin else ["PUBO-mixtype", "PCBO-mixtype"]
    # user-chosen enumeration through the documented set_mapping / set_reverse_mapping
    conts += ["PUSO-setmap", "QUSO-setrev", "PCSO-setrev"] if spin else ["PUBO-setmap", "QUBO-setrev", "PCBO-setrev"]
    for cont_ in conts:
        is_rev = cont_.endswith("-rev")
        is_rep = cont_.endswith("-rep")
        is_mix = cont_.endswith("-mixtype")
        setmap = cont_.split("-")[1] if ("-set" in cont_) else None
        cont = cont_.split("-")[0]
        if cont in gen.DEG2 and deg > 2:
            continue
        for sch in (gen.MATRIX_SCHEMES if cont in gen.MATRIX else gen.LABELLED_SCHEMES):
            if (is_rev or setmap or is_rep) and sch not in ("int", "str", "rstr"):
                continue
            if is_mix and (sch != "int" or sum(1 for k in D0 if 1 in k) < 2):
                continue
            D = gen.relabel(D0, sch, N)
            if is_rev:
                D = dict(reversed(list(D.items())))
            labels = gen.labels_for(sch, N)
            late = {}
            if setmap and len(D) >= 2:
                # the terms mentioning the last variable are added AFTER the enumeration was chosen (a brand-new label then)
                late = {k: v for k, v in D.items() if labels[-1] in k}
                if len(late) == len(D) or len({l for k in D if k not in late for l in k}) < 2:
                    late = {}
            if is_mix:
                M = gen.cls(cont)()
                alt = [True, 1.0]
                for k, v in D.items():
                    kk = tuple((alt.pop(0) if (l == 1 and alt) else l) for l in k) if 1 in k else k
                    M[kk] += v
            else:
                src = spell(D, "dictrep", spin) if is_rep else {k: v for k, v in D.items() if k not in late}
                M, _w = (spell(D, cont, spin), None) if cont in ("dictperm", "dictrep", "dictdup") else call(gen.build, cont, src)
                if isinstance(M, Raised):
                    st.violation("build|raises-%s|%s" % (M.kind, "labelled"), dict(case, container=cont_, scheme=sch, fn="build"),
                                 "C04 %s(%s) raised %r: a valid model (every key denotes at most the type's degree after squashing) is rejected" % (cont, short(src, 200), M.exc))
                    continue
            if setmap:
                # convert once BEFORE the enumeration is changed: nothing may remember the old one
                for _t in ("to_pubo", "to_puso", "to_qubo", "to_quso"):
                    if not (_t in ("to_qubo", "to_quso") and deg > 2):
                        call(getattr(M, _t))
                gen.permute_mapping(M, setmap)
                for k, v in late.items():
                    M[k] += v
            tsrc = rp.tt(D, labels, spin)
            before = snap(M)
            st.extra["models_built"] = st.extra.get("models_built", 0) + 1

            def viol(fn, kind, msg, **extra):
                st.violation("%s|%s|%s" % (fn, kind, cont if cont.startswith("dict") else ("matrix" if cont in gen.MATRIX else "labelled")),
                             dict(case, container=cont, scheme=sch, fn=fn, **extra),
                             "C04 %s on %s %s (labels %s): %s" % (fn, cont, short(dict(M), 200), sch, msg))

            def unchanged(fn):
                nonlocal before
                if snap(M) != before:
                    viol(fn, "argument-mutated", "the source changed to %s" % short(M))
                    before = snap(M)

            # ------------------------------------------------------ the four functions
            for fn, native, mtype, ltype, maxdeg in FUNCS[case["kind"]]:
                if deg > maxdeg:
                    continue
                st.transitions += 1
                st.traces += 1
                r, _w = call(getattr(qv.utils, fn), M)
                if isinstance(r, Raised):
                    viol(fn, "raises-" + r.kind, "raised %r" % r.exc)
                    continue
                want = mtype if cont == native else ltype
                if type(r).__name__ != want:
                    viol(fn, "type", "returned %s, documented %s" % (type(r).__name__, want))
                    continue
                if any(l not in labels for k in r for l in k):
                    viol(fn, "labels", "result %s mentions unknown labels" % short(dict(r)))
                    continue
                if not rp.tables_equal(rp.tt(r, labels, not spin), tsrc):
                    viol(fn, "value", "result %s is not the same function under 0<->1, 1<->-1" % short(dict(r)))
                unchanged(fn)

            if cont in ("dict", "dictperm", "dictrep", "dictdup"):
                continue
            # ------------------------------------------------------ exports
            if cont in ("QUBO", "QUBOMatrix"):
                st.transitions += 1
                r, _w = call(lambda: M.Q)
                if isinstance(r, Raised):
                    viol("Q", "raises-" + r.kind, "raised %r" % r.exc)
                else:
                    ok = all(isinstance(k, tuple) and len(k) == 2 for k in r)
                    if not ok:
                        viol("Q", "shape", "Q keys must be pairs: %s" % short(r))
                    else:
                        t = rp.tt({k: v for k, v in r.items()}, labels, False)
                        if not rp.tables_equal(t + D.get((), 0), tsrc):
                            viol("Q", "value", "x^T Q x + offset differs from the model: Q = %s" % short(r))
                    r["junk"] = 1
                    unchanged("Q")
            if cont in ("QUSO", "QUSOMatrix"):
                st.transitions += 1
                r, _w = call(lambda: (M.h, M.J))
                if isinstance(r, Raised):
                    viol("hJ", "raises-" + r.kind, "raised %r" % r.exc)
                else:
                    h, J = r
                    E = {(k,): v for k, v in h.items()}
                    E.update(J)
                    if any(not (isinstance(k, tuple) and len(k) == 2) for k in J) or any(l not in labels for l in h):
                        viol("hJ", "shape", "h = %s J = %s" % (short(h), short(J)))
                    elif not rp.tables_equal(rp.tt(E, labels, True) + D.get((), 0), tsrc):
                        viol("hJ", "value", "sum h z + sum J z z + offset differs from the model: h = %s J = %s" % (short(h), short(J)))
                    unchanged("hJ")
            if cont == "QUBOMatrix":   # documented inputs: integer-indexed dict or QUBOMatrix (a labelled QUBO is enumerated first)
                nz = {k: v for k, v in D.items() if k}
                for symmetric in (False, True):
                    for array in (True, False):
                        for src_name, src in (("model", M), ("dict", dict(M))):
                            st.transitions += 1
                            st.traces += 1
                            r, _w = call(qv.utils.qubo_to_matrix, src, symmetric, array)
                            tag = "qubo_to_matrix(sym=%s,array=%s,%s)" % (symmetric, array, src_name)
                            if not D or () in D:
                                if not (isinstance(r, Raised) and r.kind == "ValueError"):
                                    # documented: empty QUBO / QUBO with a constant raise ValueError; the statement says
                                    # "up to the constant offset", so a returned matrix is accepted if it is right
                                    pass
                                if isinstance(r, Raised):
                                    st.outcomes["qubo_to_matrix rejects (empty or constant)"] += 1
                                    continue
                            if isinstance(r, Raised):
                                viol("qubo_to_matrix", "raises-" + r.kind, "%s raised %r" % (tag, r.exc))
                                continue
                            if array != isinstance(r, np.ndarray):
                                viol("qubo_to_matrix", "container", "%s returned %s" % (tag, type(r).__name__))
                                continue
                            A = np.array(r, dtype=float)
                            size = max(labels) + 1
                            if A.ndim != 2 or A.shape[0] != A.shape[1] or A.shape[0] > size:
                                viol("qubo_to_matrix", "shape", "%s returned shape %s" % (tag, A.shape))
                                continue
                            if symmetric and not np.allclose(A, A.T):
                                viol("qubo_to_matrix", "not-symmetric", "%s returned %s" % (tag, A.tolist()))
                            b, _ = rp.bits(N)
                            X = np.zeros((1 << N, A.shape[0]))
                            okl = True
                            for j, l in enumerate(labels):
                                if l < A.shape[0]:
                                    X[:, l] = b[j]
                                elif any(l in k for k in nz):
                                    okl = False
                            ref = rp.tt(nz, labels, False)
                            if not okl or not rp.tables_equal(np.einsum("ai,ij,aj->a", X, A, X), ref):
                                viol("qubo_to_matrix", "value", "%s: x^T M x differs from Q(x) - offset; M = %s" % (tag, A.tolist()))
                                continue
                            # and back
                            r2, _w = call(qv.utils.matrix_to_qubo, r)
                            if isinstance(r2, Raised):
                                viol("matrix_to_qubo", "raises-" + r2.kind, "on %s raised %r" % (A.tolist(), r2.exc))
                            elif not rp.tables_equal(rp.tt(r2, range(A.shape[0]), False), np.einsum("ai,ij,aj->a", *(lambda Y: (Y, A, Y))(np.array(rp.bits(A.shape[0])[0]).T))):
                                viol("matrix_to_qubo", "value", "matrix_to_qubo(%s) = %s" % (A.tolist(), short(dict(r2))))
                        unchanged("qubo_to_matrix")
            if cont in gen.MATRIX:
                continue
            # ------------------------------------------------------ methods on labelled models
            mapping, w = call(lambda: M.mapping)
            nbv = M.num_binary_variables
            if isinstance(mapping, Raised) or sorted(mapping.values()) != list(range(nbv)) or set(mapping) != {l for k in D for l in k}:
                viol("mapping", "not-a-bijection", "mapping %r, variables %r" % (mapping, {l for k in D for l in k}))
                continue
            rmap, w = call(lambda: M.reverse_mapping)
            if isinstance(rmap, Raised) or rmap != {i: l for l, i in mapping.items()}:
                viol("reverse_mapping", "not-inverse%s" % ("-after-" + setmap if setmap else ""), "reverse_mapping %r is not the inverse of mapping %r" % (rmap, mapping))
                continue
            ilabels = list(range(nbv))
            Dm = {tuple(mapping[l] for l in k): v for k, v in D.items()}
            tenum = rp.tt(Dm, ilabels, spin)
            rev = {i: l for l, i in mapping.items()}
            methods = ["to_pubo", "to_puso", "to_qubo", "to_quso", "to_enumerated"]
            for meth in methods:
                target = ENUM[cont] if meth == "to_enumerated" else meth
                if target in ("to_qubo", "to_quso") and deg > 2:
                    continue
                st.transitions += 1
                st.traces += 1
                r, _w = call(getattr(M, meth))
                if isinstance(r, Raised):
                    viol(meth, "raises-" + r.kind, "raised %r" % r.exc)
                    continue
                if type(r).__name__ != METHOD_TYPE[target]:
                    viol(meth, "type", "returned %s, expected %s" % (type(r).__name__, METHOD_TYPE[target]))
                    continue
                if any((not isinstance(l, int)) or l < 0 or l >= nbv for k in r for l in k):
                    viol(meth, "labels", "result %s uses labels outside 0..%d" % (short(dict(r)), nbv - 1))
                    continue
                rspin = target in ("to_puso", "to_quso")
                if not rp.tables_equal(rp.tt(r, ilabels, rspin), tenum):
                    viol(meth, "value", "mapping %r: result %s is not the relabelled source" % (mapping, short(dict(r))))
                unchanged(meth)
            # ------------------------------------------------------ convert_solution
            for a in range(1 << nbv):
                for form_spin in (False, True):
                    s = rp.assignment(a, ilabels, form_spin)
                    want = {rev[i]: v for i, v in rp.assignment(a, ilabels, spin).items()}
                    for cname, sol in (("dict", s), ("list", [s[i] for i in ilabels]), ("tuple", tuple(s[i] for i in ilabels))):
                        st.transitions += 1
                        st.traces += 1
                        r, _w = call(M.convert_solution, sol, form_spin)
                        if isinstance(r, Raised):
                            viol("convert_solution", "raises-" + r.kind, "(%r, spin=%s) raised %r" % (sol, form_spin, r.exc), solution=list(s.values()), form_spin=form_spin)
                            continue
                        if r != want:
                            viol("convert_solution", "wrong", "(%r, spin=%s) = %r, expected %r" % (sol, form_spin, r, want), form_spin=form_spin)
                            continue
                        val, _w = call(M.value, r)
                        if isinstance(val, Raised) or abs(val - tenum[a]) > 1e-9:
                            viol("convert_solution", "value", "M.value(convert_solution(%r)) = %r, enumerated model gives %r" % (sol, val, tenum[a]), form_spin=form_spin)
                unchanged("convert_solution")


def run(ctx):
    ctx.bounds = {"n": 3 if ctx.quick else 4, "coefs": COEFS if ctx.quick else (-2, 1, 3), "offsets": OFFSETS, "max_terms": 3,
                  "containers": "all of DESIGN 2.4 + raw dicts with permuted keys, repeated labels, and duplicate spellings of one monomial", "schemes": list(gen.LABELLED_SCHEMES),
                  "matrices": "all 2x2 over {-1,0,2}" if ctx.quick else "all 2x2 over {-1,0,2,0.5}; all 3x3 over {0,1,-2}"}
    ctx.rule = ("case = (kind, polynomial) checked in every container x spelling x label scheme x entry point x assignment; "
                "or one family of square matrices; non-trivial = has a non-constant term")
    explore_cases(ctx, gen_cases(ctx.tier), check, label="C04")


def replay(case):
    from ..runner import Stats
    st = Stats()
    if case["kind"] == "matrix":
        check({k: case[k] for k in ("kind", "n", "entries", "first") if k in case}, st)
    else:
        check({"kind": case["kind"], "poly": case["poly"], "n": case["n"]}, st)
    return [(s, m) for s, c, m in st.viol]
