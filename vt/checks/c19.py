"""C19 -- models survive copy and info round trips and never alias their inputs.

Engine A: a model family (every type x names x constraints x refreshed/stale bookkeeping) crossed with
(i) create_from_info(get_info(M)), (ii) every accessor x every mutation of either side, (iii) a registry
of every public callable that takes a model / dict / solution argument, each called on deep-snapshotted
arguments.  The registry is checked for completeness against __all__ and dir() of the model classes.
"""
import itertools

import numpy as np

from .. import gen, paths
from ..common import call, Raised, short, snap
from ..ref import poly as rp
from ..runner import explore_cases, Stats

ID = "C19"
META = {
    "engine": "smallscope",
    "technique": "exhaustive enumeration of a model family x accessors x mutation menu (both directions) and x a registry of all public callables with deep before/after snapshots of every argument",
    "text": "Model family: ten types x {unnamed, named} x {no constraint, one, two (one with ancillas)} x {refreshed, stale after a cancelling edit} x 4 polynomials (+ label schemes in thorough). "
            "(i) create_from_info(get_info(M)) reproduces type, terms, name, mapping, num_ancillas, constraints and get_info is a fixpoint; (ii) for each accessor {copy(), copy constructor, "
            "mapping, reverse_mapping, variables, constraints, every polynomial inside constraints} every mutation from a menu of 6 is applied to the returned object (M must be unchanged) "
            "and to M (the returned object must be unchanged), and the same both-direction independence after every operation that combines two models "
            "(update, +=, -=, *=, +, *, copy constructor; constrained and unconstrained operands); (iii) every public function of qubovert.utils/sat/sim and every model method that takes a model, dict, solution or constraint "
            "polynomial is called with snapshotted arguments which must be unchanged afterwards; uncovered public callables are listed in the evidence.",
    "note": "Bounded model family. Annealers run on the rebuilt C extension with a fixed seed and short schedules.",
}

POLYS = [{}, {(0,): 1, (): 2}, {(0, 1): 2, (1,): -1}, {(0, 1, 2): 1, (0, 2): -2, (): 0.5}]
LAB = "str"


def gen_cases(tier):
    schemes = ("str",) if tier == "quick" else ("str", "int", "tuple", "mixed")

    def it():
        for typ in gen.BOOL_CONTAINERS[1:] + gen.SPIN_CONTAINERS[1:]:
            for pi, D in enumerate(POLYS):
                if typ in gen.DEG2 and max((len(k) for k in D), default=0) > 2:
                    continue
                for sch in (schemes if typ not in gen.MATRIX else ("int",)):
                    for named in (False, True, "falsy"):
                        for stale in (False, True):
                            cons = (0, 1, 2) if typ in ("PCBO", "PCSO") else (0,)
                            for con in cons:
                                yield {"part": "model", "type": typ, "poly": pi, "scheme": sch, "named": named, "stale": stale, "constraints": con}
        for typ in gen.BOOL_CONTAINERS[1:] + gen.SPIN_CONTAINERS[1:]:
            for op in PAIR_OPS:
                for bcon in ((0, 1, 2) if typ in ("PCBO", "PCSO") else (0,)):
                    for acon in ((0, 1) if typ in ("PCBO", "PCSO") else (0,)):
                        yield {"part": "pairop", "type": typ, "op": op, "a_constraints": acon, "b_constraints": bcon}
        for name in sorted(REGISTRY):
            yield {"part": "registry", "entry": name}
        yield {"part": "completeness"}
    return it


def make_model(case):
    typ = case["type"]
    n = 4
    L = gen.labels_for(case["scheme"], n)
    D = gen.relabel(POLYS[case["poly"]], case["scheme"], n)
    M = gen.build(typ, D)
    if case["named"] == "falsy":
        M.name = (0, "", 0.0, False)[case["poly"] % 4]      # a name that is falsy but not None (e.g. the variable labelled 0)
    elif case["named"]:
        M.name = "model-%d" % case["poly"]
    if case["constraints"] >= 1:
        M.add_constraint_le_zero({(L[0],): 1, (L[1],): 1, (): -1}, lam=2)
    if case["constraints"] >= 2:
        M.add_constraint_ne_zero({(L[0],): 1, (L[2],): 1, (L[3],): -1}, lam=3)
    if case["stale"]:
        M[(L[3],)] += 5
        M[(L[3],)] -= 5
    return M, L


def mutations(L):
    return [("setitem", lambda o: o.__setitem__((L[1],), 7) if isinstance(o, dict) and not _is_plain_map(o) else _generic_set(o, L)),
            ("delitem", lambda o: _generic_del(o)),
            ("clear", lambda o: o.clear()),
            ("iadd", lambda o: _iadd(o)),
            ("add_constraint", lambda o: o.add_constraint_eq_zero({(L[2],): 1}, lam=1) if hasattr(o, "add_constraint_eq_zero") else o.clear()),
            ("update", lambda o: o.update({(L[2], L[3]): 4}) if isinstance(o, dict) and not _is_plain_map(o) else _generic_set(o, L))]


def _is_plain_map(o):
    return type(o) is dict or isinstance(o, set)


def _generic_set(o, L):
    if isinstance(o, set):
        o.add("new-element")
    else:
        o["new-key"] = 99


def _generic_del(o):
    if isinstance(o, set):
        if o:
            o.pop()
    elif len(o):
        del o[next(iter(o))]


def _iadd(o):
    if isinstance(o, dict) and not _is_plain_map(o):
        o += 1
    elif isinstance(o, set):
        o |= {"x"}
    else:
        o["k2"] = 1


def accessors(M):
    acc = [("copy()", lambda: M.copy()), ("copy-constructor", lambda: type(M)(M))]
    for name in ("mapping", "reverse_mapping", "variables", "constraints"):
        if hasattr(M, name):
            acc.append((name, lambda name=name: getattr(M, name)))
    if hasattr(M, "constraints"):
        for k, lst in M.constraints.items():
            for i in range(len(lst)):
                acc.append(("constraints[%s][%d]" % (k, i), lambda k=k, i=i: M.constraints[k][i]))
                acc.append(("constraints[%s] list" % k, lambda k=k: M.constraints[k]))
    return acc


def check_model(case, st):
    qv = paths.import_qubovert()
    typ = case["type"]
    M, L = make_model(case)
    st.nontrivial += 1 if (case["constraints"] or case["stale"] or case["named"]) else 0

    def v(kind, msg):
        st.violation("%s|%s" % (kind, "PC" if typ in ("PCBO", "PCSO") else ("matrix" if typ in gen.MATRIX else "labelled")), case,
                     "C19 %s %s (name=%r, constraints=%d, stale=%s): %s" % (typ, short(dict(M), 160), M.name, case["constraints"], case["stale"], msg))
    # ---------------------------------------------------------------- (i) info round trip
    before = snap(M)
    info, _w = call(qv.utils.get_info, M)
    st.transitions += 2
    st.traces += 2
    if isinstance(info, Raised):
        v("get_info-raises", "get_info raised %r" % info.exc)
    else:
        C, _w = call(qv.utils.create_from_info, info)
        if isinstance(C, Raised):
            v("create_from_info-raises-" + C.kind, "create_from_info(get_info(M)) raised %r" % C.exc)
        else:
            if type(C) is not type(M):
                v("info-type", "type %s" % type(C).__name__)
            elif dict(C) != dict(M):
                v("info-terms", "terms %s" % short(dict(C)))
            elif C.name != M.name:
                v("info-name", "name %r" % (C.name,))
            elif hasattr(M, "mapping") and (C.mapping != M.mapping or C.reverse_mapping != M.reverse_mapping):
                v("info-mapping", "mapping %r, expected %r" % (C.mapping, M.mapping))
            elif hasattr(M, "num_ancillas") and C.num_ancillas != M.num_ancillas:
                v("info-num_ancillas", "num_ancillas %r, expected %r" % (C.num_ancillas, M.num_ancillas))
            elif hasattr(M, "constraints") and snap(C.constraints) != snap(M.constraints):
                v("info-constraints", "constraints %s, expected %s" % (short(C.constraints), short(M.constraints)))
            else:
                info2, _w = call(qv.utils.get_info, C)
                if isinstance(info2, Raised) or snap(info2) != snap(info):
                    v("info-not-fixpoint", "get_info(copy) = %s differs from get_info(M) = %s" % (short(info2), short(info)))
            # the info dict must not alias the model
            if not isinstance(info, Raised):
                for key in ("terms", "mapping", "constraints"):
                    if key in info and isinstance(info[key], dict):
                        info[key]["junk-key"] = 1
                if snap(M) != before:
                    v("info-aliases-model", "mutating get_info(M) changed M")
                    M, L = make_model(case)
                    before = snap(M)
    # ---------------------------------------------------------------- (ii) accessors x mutations, both directions
    for aname, _get in accessors(M):
        for mname, _mut in mutations(L):
            for direction in ("mutate-returned", "mutate-model"):
                M, L = make_model(case)
                acc = dict(accessors(M))
                if aname not in acc:
                    continue
                obj, _w = call(acc[aname])
                st.transitions += 1
                st.traces += 1
                if isinstance(obj, Raised):
                    v("accessor-raises", "%s raised %r" % (aname, obj.exc))
                    break
                mut = dict(mutations(L))[mname]
                if direction == "mutate-returned":
                    b = snap(M)
                    call(mut, obj)
                    if snap(M) != b:
                        v("aliased|%s|%s" % (aname.split("[")[0], mname), "mutating the object returned by %s (%s) changed the model" % (aname, mname))
                else:
                    b = snap(obj)
                    call(mut, M)
                    if hasattr(M, "add_constraint_eq_zero") and mname == "add_constraint":
                        pass
                    if snap(obj) != b:
                        v("aliased-reverse|%s|%s" % (aname.split("[")[0], mname), "mutating the model (%s) changed the object previously returned by %s" % (mname, aname))
    # copies must be equal to the model
    M, L = make_model(case)
    for aname, get in accessors(M)[:2]:
        C, _w = call(get)
        # (the statement only promises independence; that a copy carries the same type and terms is the minimum meaning of "copy")
        if isinstance(C, Raised) or type(C) is not type(M) or dict(C) != dict(M):
            v("copy-differs|%s" % aname, "%s gives %s" % (aname, short(C)))


# ------------------------------------------------------------------------------------ (ii') operations that combine two models

PAIR_OPS = ("update", "iadd", "isub", "imul", "add", "mul", "copy-constructor", "update-then-copy")


def check_pairop(case, st):
    """After an operation that takes a model b as argument, a and b must stay independent under ANY later mutation of either."""
    qv = paths.import_qubovert()
    typ = case["type"]
    sch = "int" if typ in gen.MATRIX else "str"
    L = gen.labels_for(sch, 4)
    st.nontrivial += 1

    def mk(which, ncon):
        D = gen.relabel({(0,): 1, (0, 1): -2} if which == "a" else {(1,): 2, (1, 2): 1, (): -1}, sch, 4)
        M = gen.build(typ, D)
        if ncon >= 1:
            if which == "a":
                M.add_constraint_eq_zero({(L[0],): 1, (L[1],): -1}, lam=1)          # a has kind 'eq' only
            else:
                M.add_constraint_le_zero({(L[0],): 1, (L[1],): 1, (): -1}, lam=2)   # b has kind 'le' ...
        if ncon >= 2:
            M.add_constraint_eq_zero({(L[1],): 1, (L[2],): -1}, lam=1)              # ... and 'eq'
        return M

    def apply(a, b):
        op = case["op"]
        if op == "update":
            a.update(b)
        elif op == "iadd":
            a += b
        elif op == "isub":
            a -= b
        elif op == "imul":
            a *= b
        elif op == "add":
            a = a + b
        elif op == "mul":
            a = a * b
        elif op == "copy-constructor":
            a = type(b)(b)
        elif op == "update-then-copy":
            a.update(b)
            a = a.copy()
        return a

    def v(kind, msg):
        st.violation("pairop|%s|%s|%s" % (case["op"], kind, "PC" if typ in ("PCBO", "PCSO") else ("matrix" if typ in gen.MATRIX else "labelled")), case,
                     "C19 %s, a = a %s b (a has %d, b has %d recorded constraints): %s" % (typ, case["op"], case["a_constraints"], case["b_constraints"], msg))
    muts = mutations(L)
    if typ in ("PCBO", "PCSO"):
        muts = muts + [("add_constraint_le", lambda o: o.add_constraint_le_zero({(L[2],): 1, (L[3],): 1, (): -1}, lam=1)),
                       ("add_constraint_ne", lambda o: o.add_constraint_ne_zero({(L[2],): 1, (L[3],): -1}, lam=1))]
    for mname, mut in muts:
        for direction in ("mutate-result", "mutate-argument"):
            a, b = mk("a", case["a_constraints"]), mk("b", case["b_constraints"])
            bb = snap(b)
            r, _w = call(apply, a, b)
            st.transitions += 1
            st.traces += 1
            if isinstance(r, Raised):
                st.outcomes["operation raised " + r.kind] += 1
                break
            a = r
            if snap(b) != bb:
                v("argument-mutated", "the operation itself changed b")
                break
            if direction == "mutate-result":
                call(mut, a)
                if snap(b) != bb:
                    v("aliased|" + mname, "mutating the result (%s) afterwards changed the argument b: %s" % (mname, short(getattr(b, "constraints", dict(b)), 200)))
            else:
                aa = snap(a)
                call(mut, b)
                if snap(a) != aa:
                    v("aliased-reverse|" + mname, "mutating the argument b (%s) afterwards changed the result: %s" % (mname, short(getattr(a, "constraints", dict(a)), 200)))


# ------------------------------------------------------------------------------------ (iii) registry

def _bool_models():
    out = []
    D = {("a",): 1, ("a", "b"): -2, (): 1}
    Di = {(0,): 1, (0, 1): -2, (): 1}
    for c in ("dict", "QUBO", "PUBO", "PCBO"):
        out.append(gen.build(c, D))
    for c in ("QUBOMatrix", "PUBOMatrix"):
        out.append(gen.build(c, Di))
    return out


def _spin_models():
    out = []
    D = {("a",): 1, ("a", "b"): -2, (): 1}
    Di = {(0,): 1, (0, 1): -2, (): 1}
    for c in ("dict", "QUSO", "PUSO", "PCSO"):
        out.append(gen.build(c, D))
    for c in ("QUSOMatrix", "PUSOMatrix"):
        out.append(gen.build(c, Di))
    return out


def _labels_of(M):
    return sorted({l for k in M for l in k}, key=repr)


def _calls_for(entry):
    """Yield (description, fn, args, kwargs) for one registry entry."""
    qv = paths.import_qubovert()
    u, sat, sim = qv.utils, qv.sat, qv.sim
    kind, name = entry.split(":", 1)
    if kind == "utils":
        f = getattr(u, name)
        if name in ("boolean_to_spin", "spin_to_boolean"):
            vals = (0, 1) if name == "boolean_to_spin" else (1, -1)
            for x in ({"a": vals[0], "b": vals[1]}, [vals[0], vals[1]], (vals[1], vals[0])):
                yield name, f, [x], {}
        elif name in ("boolean_to_decimal", "spin_to_decimal"):
            vals = (0, 1) if name == "boolean_to_decimal" else (1, -1)
            yield name, f, [[vals[1], vals[0], vals[1]]], {}
        elif name == "is_solution_spin":
            for x in ({"a": 0, "b": 1}, [1, -1], (1, 1)):
                yield name, f, [x], {}
        elif name == "sum":
            yield name, f, [[qv.PUBO({("a",): 1}), qv.PUBO({("b",): 2})]], {}
            # (utils.sum(iterable, start) does `start += i`, i.e. it updates a model passed as `start` in place; `sum` is not one of the
            #  statement's categories -- constraint method, conversion, solver, annealer -- so that is recorded in DESIGN section 4, not checked)
        elif name.startswith("approximate_") or name in ("pubo_to_puso", "qubo_to_quso"):
            for M in (_spin_models() if "so_ext" in name else _bool_models()):
                yield name, f, [M], {}
        elif name in ("puso_to_pubo", "quso_to_qubo"):
            for M in _spin_models():
                yield name, f, [M], {}
        elif name in ("subgraph",):
            for M in _bool_models() + _spin_models():
                ls = _labels_of(M)
                yield name, f, [M, {ls[0]}, {ls[1]: 1}], {}
        elif name == "subvalue":
            for M in _bool_models() + _spin_models():
                ls = _labels_of(M)
                yield name, f, [{ls[0]: 1}, M], {}
        elif name == "normalize":
            for M in _bool_models() + _spin_models():
                yield name, f, [M, 2], {}
        elif name.endswith("_value"):
            for M in (_spin_models() if name[1:3] == "us" else _bool_models()):
                ls = _labels_of(M)
                yield name, f, [{l: 1 for l in ls}, M], {}
        elif name.startswith("solve_"):
            spinf = "so_" in name
            consts = [{(): 5}, gen.build("PUSO" if spinf else "PUBO", {(): 5}), gen.build("QUSOMatrix" if spinf else "QUBOMatrix", {(): -2})]
            for M in (_spin_models() if spinf else _bool_models()) + consts:
                yield name, f, [M], {}
                yield name, f, [M, True], {}
        elif name == "matrix_to_qubo":
            yield name, f, [[[1, 2], [0, -1]]], {}
            yield name, f, [np.array([[1, 2], [0, -1]])], {}
        elif name == "qubo_to_matrix":
            Q = u.QUBOMatrix({(0,): 1, (0, 1): -2})
            yield name, f, [Q], {}
            yield name, f, [dict(Q), True, False], {}
        elif name == "get_info":
            for M in _bool_models()[1:] + _spin_models()[1:]:
                yield name, f, [M], {}
        elif name == "create_from_info":
            for M in _bool_models()[1:] + _spin_models()[1:]:
                H = M
                if hasattr(H, "add_constraint_le_zero"):
                    H.add_constraint_le_zero({("a",): 1, ("b",): 1, ("c",): 1, (): -2})
                yield name, f, [u.get_info(H)], {}
    elif kind == "sat":
        f = getattr(sat, name)
        ops = [qv.PUBO({("a",): 1}), {("b",): 1}, qv.PCBO({("c",): 1, ("a", "c"): -1, (): 0}), u.PUBOMatrix({(0,): 1})]
        if name in ("BUFFER", "NOT"):
            for o in ops:
                yield name, f, [o], {}
        else:
            for a, b in itertools.permutations(ops[:3], 2):
                yield name, f, [a, b], {}
            yield name, f, list(ops[:3]), {}
    elif kind == "sim":
        f = getattr(sim, name)
        if name == "anneal_temperature_range":
            for M in _bool_models():
                yield name, f, [M], {}
            for M in _spin_models():
                yield name, f, [M], {"spin": True}
        else:
            spin = name in ("anneal_quso", "anneal_puso")
            for M in (_spin_models() if spin else _bool_models()):
                ls = _labels_of(M)
                val = 1
                init = {l: val for l in ls} if isinstance(ls[0], str) else [val] * (max(ls) + 1)
                sched = [2.0, 1.0, 0.5]
                trange = [3, 1]
                yield name, f, [M], {"num_anneals": 2, "anneal_duration": 3, "seed": 1}
                yield name, f, [M], {"num_anneals": 1, "initial_state": init, "schedule": sched, "seed": 1}
                yield name, f, [M], {"num_anneals": 1, "anneal_duration": 2, "temperature_range": trange, "schedule": "linear", "in_order": False, "seed": 1}
    elif kind == "method":
        cname, mname = name.split(".")
        cls_ = gen.cls(cname)
        spin = cname in gen.SPIN_TYPES
        D = {(0,): 1, (0, 1): -2, (): 1} if cname in gen.MATRIX else {("a",): 1, ("a", "b"): -2, (): 1}
        M = cls_(D)
        ls = _labels_of(M)
        one = 1
        other = -1 if spin else 0
        if mname.startswith("add_constraint_") and mname.endswith("_zero"):
            for P in ({(ls[0],): 1, (ls[1],): -1}, gen.build("PUSO" if spin else "PUBO", {(ls[0],): 2, (ls[1],): 1, (): -1}),
                      gen.build(cname, {(ls[0],): 1, ("z",): 1, (): -1})):
                for kw in ({}, {"bounds": [-3, 3]}):
                    yield name, getattr(cls_(D), mname), [P], kw
        elif mname.startswith("add_constraint_"):
            gate = mname.split("_")[-1]
            ops = [qv.PUBO({("a",): 1}), {("b",): 1}, qv.PCBO({("c",): 1}), "d"]
            nargs = 1 if gate in ("NOT", "BUFFER") else 2
            if "_eq_" in mname:
                nargs += 1
            for combo in itertools.permutations(ops, nargs):
                yield name, getattr(cls_(D), mname), list(combo), {}
        elif mname in ("to_pubo", "to_puso", "to_qubo", "to_quso", "to_enumerated", "solve_bruteforce", "refresh_free_copy"):
            yield name, getattr(M, mname), [], {}
            if mname == "solve_bruteforce":
                Mc = cls_({(): 5})
                yield name, Mc.solve_bruteforce, [], {}
        elif mname in ("value", "is_solution_valid"):
            for sol in ({l: one for l in ls}, {l: other for l in ls}):
                yield name, getattr(M, mname), [sol], {}
            if cname in gen.MATRIX:
                yield name, getattr(M, mname), [[one, other]], {}
        elif mname == "convert_solution":
            n = M.num_binary_variables
            for sol in ({i: one for i in range(n)}, [other] * n, tuple([one] * n)):
                yield name, getattr(M, mname), [sol], {}
        elif mname == "remove_ancilla_from_solution":
            yield name, getattr(M, mname), [{"a": 1, "__a0": 0}], {}
        elif mname == "subgraph":
            yield name, getattr(M, mname), [{ls[0]}, {ls[1]: one}], {}
            yield name, getattr(M, mname), [[ls[0]]], {}
        elif mname == "subvalue":
            yield name, getattr(M, mname), [{ls[0]: one}], {}
        elif mname in ("update", "__iadd__", "__isub__", "__imul__", "__add__", "__mul__", "__sub__", "__radd__", "__rmul__", "__rsub__"):
            for o in ({(ls[0],): 3, (ls[1],): 1}, cls_({(ls[1],): 2})):
                yield name, getattr(cls_(D), mname), [o], {}
        elif mname == "set_mapping":
            yield name, getattr(M, mname), [{ls[0]: 1, ls[1]: 0}], {}
        elif mname == "subs":
            yield name, getattr(M, mname), [{"x": 1}], {}


def build_registry():
    reg = []
    for n in ("boolean_to_spin", "spin_to_boolean", "boolean_to_decimal", "spin_to_decimal", "is_solution_spin", "sum",
              "approximate_pubo_extrema", "approximate_puso_extrema", "approximate_qubo_extrema", "approximate_quso_extrema",
              "pubo_to_puso", "puso_to_pubo", "qubo_to_quso", "quso_to_qubo", "subgraph", "subvalue", "normalize",
              "pubo_value", "qubo_value", "puso_value", "quso_value",
              "solve_pubo_bruteforce", "solve_qubo_bruteforce", "solve_puso_bruteforce", "solve_quso_bruteforce",
              "matrix_to_qubo", "qubo_to_matrix", "get_info", "create_from_info"):
        reg.append("utils:" + n)
    for n in ("BUFFER", "NOT", "AND", "NAND", "OR", "NOR", "XOR", "XNOR"):
        reg.append("sat:" + n)
    for n in ("anneal_temperature_range", "anneal_qubo", "anneal_quso", "anneal_pubo", "anneal_puso"):
        reg.append("sim:" + n)
    common = ["value", "is_solution_valid", "solve_bruteforce", "subgraph", "subvalue", "update",
              "__iadd__", "__isub__", "__imul__", "__add__", "__sub__", "__mul__", "__radd__", "__rsub__", "__rmul__", "subs"]
    for c in ("QUBO", "QUSO", "PUBO", "PUSO", "PCBO", "PCSO"):
        for m in common + ["to_pubo", "to_puso", "to_qubo", "to_quso", "to_enumerated", "convert_solution", "set_mapping"]:
            reg.append("method:%s.%s" % (c, m))
    for c in gen.MATRIX:
        for m in common:
            reg.append("method:%s.%s" % (c, m))
    for c in ("PCBO", "PCSO"):
        for r in ("eq", "ne", "lt", "le", "gt", "ge"):
            reg.append("method:%s.add_constraint_%s_zero" % (c, r))
        reg.append("method:%s.remove_ancilla_from_solution" % c)
    for g in ("AND", "OR", "XOR", "NAND", "NOR", "XNOR", "NOT", "BUFFER"):
        reg.append("method:PCBO.add_constraint_%s" % g)
        reg.append("method:PCBO.add_constraint_eq_%s" % g)
    return reg


REGISTRY = build_registry()

EXCLUDED = {
    "utils": {"QUBOVertWarning": "warning class", "num_bits": "takes a number", "ordering_key": "takes a label",
              "decimal_to_spin": "takes an integer", "decimal_to_boolean": "takes an integer",
              "DictArithmetic": "class (its operators are exercised through the model classes)", "PUBOMatrix": "class", "PUSOMatrix": "class",
              "QUBOMatrix": "class", "QUSOMatrix": "class", "Conversions": "abstract base class", "BO": "base class"},
    "sat": {},
    "sim": {"AnnealResult": "class (C13)", "AnnealResults": "class (C13)", "SCHEDULES": "constant"},
    "method": {"clear": "no argument", "copy": "accessor, part (ii)", "constraints": "accessor, part (ii)", "mapping": "accessor, part (ii)",
               "reverse_mapping": "accessor, part (ii)", "variables": "accessor, part (ii)", "create_var": "takes a label", "default_lam": "takes a number",
               "degree": "property", "fromkeys": "dict classmethod", "get": "dict method", "items": "dict method", "keys": "dict method", "values": "dict method",
               "max_index": "property", "name": "property", "normalize": "takes a number (in-place on self)", "num_ancillas": "property",
               "num_binary_variables": "property", "num_terms": "property", "offset": "property", "pop": "dict method", "popitem": "dict method",
               "pretty_str": "takes a string", "refresh": "no argument", "set_reverse_mapping": "same code path as set_mapping", "setdefault": "dict method",
               "simplify": "no argument", "squash_key": "takes a key tuple", "Q": "property", "h": "property", "J": "property"},
}


def _deep_perturb(obj, depth=3):
    """Change an argument in place (and everything dict-like nested in it): used AFTER a call to see whether the callee
    kept a reference to its input."""
    if depth < 0:
        return
    try:
        if isinstance(obj, dict):
            for v in list(obj.values()):
                if isinstance(v, (dict, list)):
                    _deep_perturb(v, depth - 1)
            keys = [k for k in obj if isinstance(k, tuple)]
            if keys or hasattr(obj, "squash_key"):
                k = keys[0] if keys else ()
                obj[k] = obj.get(k, 0) + 5
                lab = k[0] if k else 0
                obj[(lab,)] = obj.get((lab,), 0) - 3
            elif obj:
                # a plain mapping (label -> integer, label -> value, ...): change one entry and add one
                k0 = next(iter(obj))
                if isinstance(obj[k0], (int, float)) and not isinstance(obj[k0], bool):
                    obj[k0] = obj[k0] + 17
                obj["zz-perturbed-key"] = 23
        elif isinstance(obj, list):
            for v in obj:
                if isinstance(v, (dict, list)):
                    _deep_perturb(v, depth - 1)
    except Exception:  # noqa
        pass


NONMUTATING = ("to_pubo", "to_puso", "to_qubo", "to_quso", "to_enumerated", "solve_bruteforce", "value", "is_solution_valid", "convert_solution",
               "remove_ancilla_from_solution", "subgraph", "subvalue", "subs", "__add__", "__sub__", "__mul__", "__radd__", "__rsub__", "__rmul__")


def check_registry(case, st):
    entry = case["entry"]
    n = 0
    for desc, fn, args, kwargs in _calls_for(entry):
        n += 1
        orig_fn, orig_args = fn, list(args)
        # the receiver of a non-mutating method is "a model passed to" that method as well
        recv = getattr(fn, "__self__", None)
        if recv is not None and entry.split(".")[-1] in NONMUTATING and isinstance(recv, dict):
            args = list(args) + [recv]
            fn = (lambda f, k: (lambda *a, **kw: f(*a[:k], **kw)))(fn, len(args) - 1)
        before = [snap(a, order=False) for a in args] + [snap(kwargs)]
        st.transitions += 1
        st.traces += 1
        r, _w = call(fn, *args, **kwargs)
        after = [snap(a, order=False) for a in args] + [snap(kwargs)]
        if isinstance(r, Raised):
            st.outcomes["raised " + r.kind] += 1
        else:
            st.outcomes["returned"] += 1
        # ... and the other direction: changing an argument AFTER the call must not reach into the receiver or the result
        if not isinstance(r, Raised):
            recv0 = getattr(orig_fn, "__self__", None)
            targets = [("receiver", recv0)] if isinstance(recv0, dict) else []
            if isinstance(r, (dict, list, tuple, set)) and not any(r is a for a in args):
                targets.append(("result", r))
            tsn = [snap(t) for _n, t in targets]
            for a in orig_args:
                _deep_perturb(a)
            for (tname, t), b0 in zip(targets, tsn):
                if t is not None and not any(t is a for a in orig_args) and snap(t) != b0:
                    st.violation("argument-aliased|%s|%s" % (entry, tname), case,
                                 "C19 %s(%s): changing an argument after the call changed the %s (it kept a reference to its input): %s"
                                 % (entry, ", ".join(short(x, 80) for x in orig_args), tname, short(t, 300)))
            # ... and back: growing the receiver / the result afterwards must not reach into the arguments
            asn = [snap(a, order=False) for a in orig_args]
            for tname, t in targets:
                if t is None or any(t is a for a in orig_args) or not hasattr(t, "squash_key"):
                    continue
                for lab in ("zz-new-label", 97):
                    g, _w = call(lambda: t.__setitem__((lab,), 1))
                    if not isinstance(g, Raised):
                        break
            for i, (a, b0) in enumerate(zip(orig_args, asn)):
                if snap(a, order=False) != b0:
                    st.violation("argument-aliased-back|%s|arg%d" % (entry, i), case,
                                 "C19 %s(...): adding a variable to the receiver / result after the call changed argument %d (the model kept a reference to it): %s"
                                 % (entry, i, short(a, 300)))
        for i, (b, a) in enumerate(zip(before, after)):
            if a != b:
                st.violation("argument-mutated|%s|arg%d" % (entry, i), case,
                             "C19 %s(%s%s): argument %d changed from %s to %s"
                             % (entry, ", ".join(short(x, 80) for x in args), (", " + short(kwargs, 120)) if kwargs else "", i, short(b, 300), short(a, 300)))
    if n:
        st.nontrivial += 1
    else:
        st.skipped["registry entry without a call generator: " + entry] += 1


def check_completeness(case, st):
    qv = paths.import_qubovert()
    unc = []
    for mod, names in (("utils", qv.utils.__all__), ("sat", qv.sat.__all__), ("sim", qv.sim.__all__)):
        for n in names:
            if "%s:%s" % (mod, n) not in REGISTRY and n not in EXCLUDED[mod]:
                unc.append("%s.%s" % (mod, n))
    for cname in ("QUBO", "QUSO", "PUBO", "PUSO", "PCBO", "PCSO") + gen.MATRIX:
        cls_ = gen.cls(cname)
        for m in dir(cls_):
            if m.startswith("_"):
                continue
            if "method:%s.%s" % (cname, m) not in REGISTRY and m not in EXCLUDED["method"]:
                if m.startswith("add_constraint_") and cname == "PCSO":
                    unc.append("%s.%s" % (cname, m))
                elif not m.startswith("add_constraint_"):
                    unc.append("%s.%s" % (cname, m))
                else:
                    unc.append("%s.%s" % (cname, m))
    st.extra["registry_size"] = len(REGISTRY)
    st.extra["uncovered_public_callables"] = sorted(set(unc))
    st.extra["excluded_with_reason"] = {k: len(v) for k, v in EXCLUDED.items()}


def check(case, st):
    if case["part"] == "model":
        check_model(case, st)
    elif case["part"] == "pairop":
        check_pairop(case, st)
    elif case["part"] == "registry":
        check_registry(case, st)
    else:
        check_completeness(case, st)


def run(ctx):
    ctx.bounds = {"types": list(gen.BOOL_CONTAINERS[1:] + gen.SPIN_CONTAINERS[1:]), "polynomials": [rp.jdict(p) for p in POLYS],
                  "schemes": ("str",) if ctx.quick else ("str", "int", "tuple", "mixed"), "mutations": [m[0] for m in mutations(["a", "b", "c", "d"])],
                  "registry_entries": len(REGISTRY)}
    ctx.rule = "case = one model of the family (info round trip + all accessor x mutation x direction combinations) or one registry entry (all its generated calls); non-trivial = named / constrained / stale model or an entry with calls"
    explore_cases(ctx, gen_cases(ctx.tier), check, label="C19")


def replay(case):
    st = Stats()
    check(case, st)
    return [(s, m) for s, c, m in st.viol]
