"""C13 -- AnnealResults keeps `best` equal to the minimum under every list operation.

Engine B: explicit-state BFS over histories of list operations on a real AnnealResults,
run next to a plain python list (the reference model), to a FIXPOINT of the state space
obtained by pruning at length > MAXLEN.
"""
from .. import paths
from ..histbfs import bfs

ID = "C13"
META = {
    "engine": "histbfs",
    "technique": "explicit-state BFS over operation histories of the real AnnealResults to a fixpoint, plain-list reference model in lock-step",
    "text": "Every history of the ~110 list operations from the empty collection is explored breadth-first on the real class until no new "
            "(contents, best) state appears (collections longer than the bound are checked but not expanded); in every reached state and on "
            "every transition the list-reference, best-is-minimum, derived-type, sort and conversion oracles are evaluated.",
    "note": "Trusted: CPython list semantics as reference. Bounded: one-variable states, values 0..2, length bound 3 (quick) / 4 (thorough).",
}

# element alphabet: name -> (spin value of variable 0, model value).  Two elements share the
# minimum value 0 (ties / duplicates), A and A2 are equal-but-distinct objects by construction
# (every use builds a fresh AnnealResult).
ELEMS = {"A": (1, 0), "B": (-1, 0), "C": (1, 1), "D": (-1, 2)}
MAXLEN = {"quick": 3, "thorough": 4}

_qv = None


def qv():
    global _qv
    if _qv is None:
        paths.import_qubovert()
        import qubovert.sim as sim
        _qv = sim
    return _qv


def mk(name):
    s, v = ELEMS[name]
    return qv().AnnealResult({0: s}, v, True)


def ref_el(name):
    s, v = ELEMS[name]
    return (s, v, True)


def obs_el(r):
    return (r.state.get(0), r.value, r.spin)


def all_ops():
    ops = []
    E = list(ELEMS)
    for e in E:
        ops.append(["append", e])
        ops.append(["add_state", e])
        ops.append(["remove", e])
        for i in (0, 1, -1, 9, -9):
            ops.append(["insert", i, e])
        for i in (0, -1, 1):
            ops.append(["setitem", i, e])
    for i in (0, 1, -1, 9, -2):
        ops.append(["pop", i])
    for i in (0, 1, -1, -2):
        ops.append(["delitem", i])
    operands = [[], ["A"], ["D"], ["C", "B"]]
    for opnd in operands:
        for form in ("list", "AR", "iter"):
            for name in ("extend", "iadd", "add"):
                if name == "add" and form == "iter":
                    continue            # list + iterator is a TypeError for plain lists too
                ops.append([name, form, opnd])
    for name in ("extend", "iadd", "add"):
        ops.append([name, "self", None])
    for k in (0, 1, 2, -1, 3):
        ops.append(["mul", k])
    for sl in ([None, None], [1, None], [None, 1], [0, 0], [None, None, 2], [None, None, -1], [-2, None], [2, None, -2]):
        ops.append(["getslice", sl])
    ops.append(["setslice", [0, 1], ["D"]])
    ops.append(["setslice", [1, None], []])
    ops.append(["setslice", [None, None], ["C", "A"]])
    ops.append(["setslice", [None, None], []])
    ops.append(["setslice", [0, 0], ["B"]])
    ops.append(["delslice", [0, 1]])
    ops.append(["delslice", [1, None]])
    ops.append(["delslice", [None, None]])
    ops.append(["delslice", [None, None, 2]])
    ops.append(["delslice", [2, None, -2]])
    ops.append(["delslice", [-1, None]])
    ops.append(["setslice", [-1, None], ["A", "D"]])
    ops += [["clear"], ["sort", False], ["sort", True], ["reverse"], ["copy"], ["construct", "list"],
            ["construct", "iter"], ["construct", "AR"],
            ["filter", "le1"], ["filter", "none"], ["filter", "all"], ["filter_states", "up"],
            ["apply_function", "copy"], ["apply_function", "flip"], ["convert_states", "copy"],
            ["to_boolean"], ["to_spin"]]
    return ops


OPS = all_ops()


def _slice(sl):
    return slice(*sl)


def _operand(form, names):
    AR = qv().AnnealResults
    els = [mk(n) for n in names]
    if form == "list":
        return els
    if form == "AR":
        return AR(els)
    if form == "iter":
        return iter(els)
    raise ValueError(form)


def apply_op(real, ref, op):
    """Apply op to the real object and to the reference list.

    Returns (real', ref', info) where real' / ref' are the objects the history continues on
    (the result object for non-mutating operations) and info carries what the oracles need.
    Exceptions of the reference are returned as info['ref_exc'], of the real object as info['exc'].
    """
    sim = qv()
    AR = sim.AnnealResults
    name = op[0]
    info = {"derived": None, "mutating": True, "self_before": [obs_el(r) for r in real],
            "best_before": None if real.best is None else obs_el(real.best)}
    ref2 = list(ref)
    rexc = None
    out_ref = None
    # ---------- reference
    try:
        if name in ("append", "add_state"):
            ref2.append(ref_el(op[1]))
        elif name == "remove":
            ref2.remove(ref_el(op[1]))
        elif name == "insert":
            ref2.insert(op[1], ref_el(op[2]))
        elif name == "setitem":
            ref2[op[1]] = ref_el(op[2])
        elif name == "pop":
            ref2.pop(op[1])
        elif name == "delitem":
            del ref2[op[1]]
        elif name in ("extend", "iadd"):
            ref2.extend(list(ref) if op[1] == "self" else [ref_el(n) for n in op[2]])
        elif name == "add":
            out_ref = ref + (list(ref) if op[1] == "self" else [ref_el(n) for n in op[2]])
        elif name == "mul":
            out_ref = ref * op[1]
        elif name == "getslice":
            out_ref = ref[_slice(op[1])]
        elif name == "setslice":
            ref2[_slice(op[1])] = [ref_el(n) for n in op[2]]
        elif name == "delslice":
            del ref2[_slice(op[1])]
        elif name == "clear":
            ref2.clear()
        elif name == "sort":
            ref2.sort(key=lambda t: t[1], reverse=op[1])
        elif name == "reverse":
            ref2.reverse()
        elif name in ("copy", "construct"):
            out_ref = list(ref)
        elif name == "filter":
            f = {"le1": lambda t: t[1] <= 1, "none": lambda t: False, "all": lambda t: True}[op[1]]
            out_ref = [t for t in ref if f(t)]
        elif name == "filter_states":
            out_ref = [t for t in ref if t[0] == 1]
        elif name == "apply_function":
            out_ref = list(ref) if op[1] == "copy" else [(t[0], 2 - t[1], t[2]) for t in ref]
        elif name == "convert_states":
            out_ref = list(ref)
        elif name == "to_boolean":
            out_ref = [((1 - t[0]) // 2, t[1], False) if t[2] else t for t in ref]
        elif name == "to_spin":
            out_ref = [(1 - 2 * t[0], t[1], True) if not t[2] else t for t in ref]
        else:
            raise ValueError(name)
    except (IndexError, ValueError) as e:
        rexc = type(e).__name__
    info["ref_exc"] = rexc
    # ---------- real
    out = None
    operand = None
    try:
        if name == "append":
            real.append(mk(op[1]))
        elif name == "add_state":
            s, v = ELEMS[op[1]]
            real.add_state({0: s}, v, True)
        elif name == "remove":
            real.remove(mk(op[1]))
        elif name == "insert":
            real.insert(op[1], mk(op[2]))
        elif name == "setitem":
            real[op[1]] = mk(op[2])
        elif name == "pop":
            real.pop(op[1])
        elif name == "delitem":
            del real[op[1]]
        elif name == "extend":
            operand = real if op[1] == "self" else _operand(op[1], op[2])
            real.extend(operand)
        elif name == "iadd":
            operand = real if op[1] == "self" else _operand(op[1], op[2])
            before = real
            real += operand
            if real is not before:
                info["iadd_new_object"] = True
        elif name == "add":
            operand = real if op[1] == "self" else _operand(op[1], op[2])
            out = real + operand
        elif name == "mul":
            out = real * op[1]
        elif name == "getslice":
            out = real[_slice(op[1])]
        elif name == "setslice":
            real[_slice(op[1])] = [mk(n) for n in op[2]]
        elif name == "delslice":
            del real[_slice(op[1])]
        elif name == "clear":
            real.clear()
        elif name == "sort":
            real.sort(reverse=op[1])
        elif name == "reverse":
            real.reverse()
        elif name == "copy":
            out = real.copy()
        elif name == "construct":
            out = AR(list(real) if op[1] == "list" else iter(list(real)) if op[1] == "iter" else real)
        elif name == "filter":
            f = {"le1": lambda r: r.value <= 1, "none": lambda r: False, "all": lambda r: True}[op[1]]
            out = real.filter(f)
        elif name == "filter_states":
            out = real.filter_states(lambda s: s[0] == 1)
        elif name == "apply_function":
            if op[1] == "copy":
                out = real.apply_function(lambda r: r.copy())
            else:
                out = real.apply_function(lambda r: sim.AnnealResult(dict(r.state), 2 - r.value, r.spin))
        elif name == "convert_states":
            out = real.convert_states(lambda s: dict(s))
        elif name == "to_boolean":
            out = real.to_boolean()
        elif name == "to_spin":
            out = real.to_spin()
    except Exception as e:  # noqa -- classified by the oracle
        info["exc"] = "%s: %s" % (type(e).__name__, e)
        info["exc_type"] = type(e).__name__
    if operand is not None and operand is not real and op[1] in ("list", "AR"):
        info["operand_after"] = [obs_el(r) for r in operand]
        info["operand_expected"] = [ref_el(n) for n in op[2]]
    if out_ref is not None and rexc is None:
        info["mutating"] = False
        info["derived"] = out
        return (out if out is not None else real), out_ref, info
    return real, (ref2 if rexc is None else list(ref)), info


def describe(real):
    return tuple(obs_el(r) for r in real), (None if real.best is None else obs_el(real.best))


def check_state(real, ref, op, info):
    """Oracles for one transition.  Returns list of (signature, message)."""
    sim = qv()
    viol = []
    name = op[0]
    opclass = name
    if name in ("extend", "iadd", "add"):
        opclass = "%s(%s,%s)" % (name, op[1], "empty" if (op[1] != "self" and not op[2]) else "nonempty" if op[1] != "self" else "self")
    selfclass = "self-empty" if not info["self_before"] else "self-nonempty"

    def v(kind, msg):
        viol.append(("%s|%s|%s" % (opclass, selfclass, kind), "C13 %s on %s: %s" % (op, info["self_before"], msg)))

    if "exc" in info:
        if info["ref_exc"] is None:
            v("raises-" + info["exc_type"], "plain list accepts this operation but AnnealResults raises %s" % info["exc"])
        return viol
    if info["ref_exc"] is not None:
        return viol  # the real object was more lenient than a list; outside the statement (state not expanded)
    contents = [obs_el(r) for r in real]
    if contents != list(ref):
        v("contents", "contents %s differ from the reference list %s" % (contents, ref))
        return viol
    if not isinstance(real, sim.AnnealResults):
        v("type", "result is %s, not AnnealResults" % type(real).__name__)
        return viol
    best = real.best
    if not contents:
        if best is not None:
            v("best-not-None-on-empty", "collection is empty but best = %s" % (obs_el(best),))
    else:
        if best is None:
            v("best-None-on-nonempty", "collection %s is non-empty but best is None" % (contents,))
        else:
            if not any(best == r for r in real):
                v("best-not-element", "best %s is not an element of %s" % (obs_el(best), contents))
            elif best.value != min(t[1] for t in contents):
                v("best-not-minimal", "best.value = %s but the minimum of %s is %s" % (best.value, contents, min(t[1] for t in contents)))
    if not info["mutating"]:
        # the object the operation was called on must be untouched
        pass
    if "operand_after" in info and info["operand_after"] != info["operand_expected"]:
        v("operand-mutated", "operand changed from %s to %s" % (info["operand_expected"], info["operand_after"]))
    if name == "sort":
        vals = [t[1] for t in contents]
        if vals != sorted(vals, reverse=op[1]):
            v("sort-order", "sort(reverse=%s) left values %s" % (op[1], vals))
    if name in ("to_boolean", "to_spin"):
        want = False if name == "to_boolean" else True
        if any(r.spin != want for r in real):
            v("spin-flag", "%s left spin flags %s" % (name, [r.spin for r in real]))
        try:
            back = real.to_spin() if name == "to_boolean" else real.to_boolean()
            again = back.to_boolean() if name == "to_boolean" else back.to_spin()
            if [obs_el(r) for r in again] != contents:
                v("not-inverse", "%s then the opposite conversion and back gives %s, expected %s" % (name, [obs_el(r) for r in again], contents))
        except Exception as e:  # noqa
            v("raises-" + type(e).__name__, "round trip after %s raises %r" % (name, e))
    return viol


def make_step(maxlen):
    sim = qv()

    def step(hist):
        real = sim.AnnealResults()
        ref = []
        viol = []
        for n, op in enumerate(hist):
            orig = real
            before = describe(real)
            real2, ref2, info = apply_op(real, ref, op)
            last = n == len(hist) - 1
            if True:
                vv = check_state(real2, ref2, op, info)
                if not info["mutating"] and "exc" not in info and describe(orig) != before:
                    vv.append(("%s|self-%s|self-mutated" % (op[0], "empty" if not before[0] else "nonempty"),
                               "C13 %s: non-mutating operation changed self from %s to %s" % (op, before, describe(orig))))
                if vv and not last:
                    # a prefix already violates: the search never expands such a state, replay reports it
                    return {"key": None, "viol": vv, "expand": False}
                viol = vv
            if "exc" in info or info["ref_exc"] is not None:
                return {"key": None, "viol": viol, "expand": False, "why": "operation rejected (by the list reference: %s)" % info["ref_exc"]}
            real, ref = real2, ref2
        key = describe(real)
        expand = len(ref) <= maxlen
        return {"key": key, "viol": viol, "expand": expand, "why": "length > %d" % maxlen,
                "nontrivial": len(ref) >= 2 and len({t[1] for t in ref}) < len(ref) or len(ref) >= 2}

    return step


def enabled_ops(hist, r):
    return OPS


def run(ctx):
    maxlen = MAXLEN[ctx.tier]
    ctx.bounds = {"elements": ELEMS, "operations": len(OPS), "max_length_expanded": maxlen,
                  "depth": "to fixpoint", "alphabet": [o for o in OPS[:8]] + ["..."]}
    ctx.rule = ("BFS over histories of the %d operations from the empty AnnealResults; a state is (contents as (state,value,spin) "
                "tuples, best as tuple or None); states longer than %d are checked but not expanded; non-trivial = at least two elements"
                % (len(OPS), maxlen))
    ctx.assumptions = ["elements have one variable and values 0..2; futures of a state depend only on contents and best (all methods compare by == / value)",
                       "`*=`, `k * res` (reflected) and in-place list methods not named in the statement are not exercised"]
    step = make_step(maxlen)
    bfs(ctx, step, OPS, max_depth=64, label="C13 bfs",
        count_outcome=lambda h, r: "violation" if r["viol"] else ("rejected" if r["key"] is None else "ok"))
    ctx.exhaustive = bool(ctx.stats.extra.get("bfs_fixpoint"))


def replay(case):
    step = make_step(99)
    r = step(case)
    return r["viol"]
