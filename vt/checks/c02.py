"""C02 -- PCBO comparison constraints become exact non-negative penalties.

Engine A: all small integer polynomials x 6 relations x log_trick x bounds variants x lam; the terms
added to an empty PCBO are tabulated over variables AND ancillas.  Sequences: all ordered tuples of
constraints from a branch-covering menu on a model with an objective.
"""
from .. import constraints

ID = "C02"
META = {
    "engine": "smallscope",
    "technique": "exhaustive small-scope enumeration of constraint polynomials x relations x options; full truth table over variables and ancillas; all constraint sequences from a branch-covering menu; one slice with ~50 slack bits decided by an exact polynomial identity over the real model instead of enumerating the ancillas",
    "text": "Every integer polynomial P with <=3 variables, <=2 (quick) / <=3 (thorough) terms over {-2,-1,1,2} and offset in -2..2, every relation, log_trick, six "
            "kinds of valid bounds and four weights (1, 2.5, 0.5, 2) is added to an empty PCBO (plus a two-variable slice with coefficients up to +-10); on the table over all variables and ancillas F>=0, min_a F=0 exactly where P R 0 "
            "and >=lam elsewhere (unless warned unsatisfiable), is_solution_valid agrees with the relation, only __a ancillas appear, P is unchanged. All ordered "
            "sequences of length 2 (quick) / 3 (thorough) from a 21-constraint menu covering every branch (special forms, their near misses, constraints decided by their bounds alone): ancillas never "
            "reused, num_ancillas exact, penalties add, recorded constraints exactly those added. Coefficients of 2^49..2^60 (about 50 slack bits): the added terms are shown to equal "
            "lam (Q + sum c_i a_i)^2 as an exact integer identity with a contiguous slack range, and the relation is decided from that on all four (x, y).",
    "note": "Bounded: n<=3, coefficient alphabet, <=11 ancillas per constraint / <=16 variables per sequence (larger ones counted as skipped). Reference relation semantics on numpy tables.",
}



def run(ctx):
    constraints.run(ctx, spin=False)


def replay(case):
    return constraints.replay(case)
