"""C10 -- problem classes encode their combinatorial problem faithfully.

Engine A per class: all instances of a small scope x weights (strict: threshold + eps; defaults);
the QUBO/QUSO is tabulated over ALL num_binary_variables labels and its ground states are decoded with
the real convert_solution and compared with reference definitions of feasibility and cost (below,
independent of the library, brute force).
"""
import itertools

import numpy as np

from .. import gen, paths
from ..common import call, Raised, short
from ..ref import poly as rp
from ..runner import explore_cases, Stats

ID = "C10"
META = {
    "engine": "smallscope",
    "technique": "exhaustive enumeration of small instances per problem class x admissible weights; full truth table of to_qubo()/to_quso() over all formulation variables; every ground state decoded by the real convert_solution and compared with brute-force reference feasibility/cost",
    "text": "SetCover (|U|<=3, <=3 subsets, weight patterns, log_trick), VertexCover (all graphs on <=4 vertices incl. self-loops, two label schemes), BILP (N<=3, m<=2, "
            "entries from {-1,0,1,2}, feasible by construction), JobSequencing (<=3 jobs of length <=3, 1-3 workers, log_trick), GraphPartitioning (all graphs on 2 and 4 vertices; 6 in "
            "thorough; edge sets and unit-weight dicts), NumberPartitioning (<=5 numbers from 1..4, plus near-miss partitions of numbers around 1e5..1e6), AlternatingSectorsChain (N<=6). For each instance: is_solution_valid == reference feasibility on every "
            "assignment (boolean and spin, list and dict), convert_solution decodes both forms consistently, strict weights => ground energy = optimal cost and EVERY ground state decodes "
            "feasible-optimal, default weights => ground energy = optimal cost and SOME ground state does; problem-specific solve_bruteforce is feasible-optimal.",
    "note": "Bounded instance sizes as listed; formulations with more than 18 variables (unary JobSequencing) are skipped and counted. Reference problem definitions are in this file.",
}

MAXV = 18
EPS = (0.125, 1)


# ----------------------------------------------------------------------------- instance families

def subsets(universe):
    u = sorted(universe)
    out = []
    for r in range(1, len(u) + 1):
        out += [set(c) for c in itertools.combinations(u, r)]
    return out


def gen_cases(tier):
    quick = tier == "quick"

    def it():
        # SetCover
        for n in (1, 2, 3):
            U = list(range(n))
            subs = subsets(U)
            for N in (1, 2, 3):
                for Vidx in itertools.product(range(len(subs)), repeat=N):
                    V = [subs[i] for i in Vidx]
                    if set().union(*V) != set(U):
                        continue
                    wopts = [None] + [list(w) for w in itertools.product((1, 0.5, 0.25), repeat=N) if max(w) == 1]
                    if quick and N == 3 and n == 3:
                        wopts = wopts[:4]
                    for w in wopts:
                        for lt in (True, False):
                            yield {"cls": "SetCover", "U": U, "V": [sorted(v) for v in V], "weights": w, "log_trick": lt}
        # SetCover, high multiplicity: one element contained in 4..7 subsets (more slack bits in the counting constraint)
        for k in (4, 5, 6, 7):
            for lt in (True, False):
                yield {"cls": "SetCover", "U": [0], "V": [[0]] * k, "weights": None, "log_trick": lt}
                if k <= 6:
                    yield {"cls": "SetCover", "U": [0, 1], "V": [[0]] * (k - 2) + [[0, 1]] * 2, "weights": None, "log_trick": lt}
        # VertexCover
        for nv in (1, 2, 3, 4):
            pairs = [(i, j) for i in range(nv) for j in range(i, nv)]
            for r in range(1, len(pairs) + 1):
                if quick and nv == 4 and r > 5:
                    continue
                for E in itertools.combinations(pairs, r):
                    for sch in ("int", "str"):
                        yield {"cls": "VertexCover", "edges": [list(e) for e in E], "scheme": sch}
        # BILP
        ent = (-1, 0, 1, 2)
        for N, m, cent in ((1, 1, ent), (2, 1, ent), (2, 2, ent), (3, 1, ent)) + (() if quick else ((3, 2, (-1, 1, 2)),)):
            for c in itertools.product(cent, repeat=N):
                for Sflat in itertools.product(ent, repeat=N * m):
                    S = [list(Sflat[i * N:(i + 1) * N]) for i in range(m)]
                    bs = set()
                    for x0 in itertools.product((0, 1), repeat=N):
                        bs.add(tuple(sum(S[j][i] * x0[i] for i in range(N)) for j in range(m)))
                    for b in sorted(bs):
                        yield {"cls": "BILP", "c": list(c), "S": S, "b": list(b)}
        # JobSequencing
        for nj in (1, 2, 3):
            for lengths in itertools.product((1, 2, 3), repeat=nj):
                for workers in (1, 2, 3):
                    for lt in (True, False):
                        yield {"cls": "JobSequencing", "lengths": list(lengths), "workers": workers, "log_trick": lt}
        # GraphPartitioning
        for nv in (2, 4) if quick else (2, 4, 6):
            pairs = [(i, j) for i in range(nv) for j in range(i + 1, nv)]
            rmax = len(pairs) if nv <= 4 else 5
            for r in range(1, rmax + 1):
                for E in itertools.combinations(pairs, r):
                    if {v for e in E for v in e} != set(range(nv)):
                        continue
                    yield {"cls": "GraphPartitioning", "edges": [list(e) for e in E], "weights": None}
                    if nv <= 4:
                        yield {"cls": "GraphPartitioning", "edges": [list(e) for e in E], "weights": [1] * len(E)}   # dict input, unit weights (the documented threshold is for unweighted graphs)
        # NumberPartitioning
        for n in range(1, 6):
            for S in itertools.combinations_with_replacement((1, 2, 3, 4), n):
                for typ in ("list", "tuple"):
                    yield {"cls": "NumberPartitioning", "S": list(S), "type": typ}
        # magnitude slice: near-miss partitions of large numbers (all products stay exact in doubles)
        for S in ([100001, 100000], [500000, 500000], [250000, 250001, 3, 3], [300000, 200000, 500000], [700000, 300000, 400001, 600000], [1000001, 999999, 1]):
            yield {"cls": "NumberPartitioning", "S": list(S), "type": "list"}
        for S in ([1, -1], [2, -1, 1], [3, -1, -2, 4], [-2, -2], [1, 2, -3, 4], [-1, -2, -3]):
            for typ in ("list", "tuple"):
                yield {"cls": "NumberPartitioning", "S": list(S), "type": typ}
        # AlternatingSectorsChain
        for N in range(1, 7):
            for cl in (2, 3):
                for mn, mx in ((1, 10), (1, 2), (2, 10), (10, 1)):
                    for pbc in (False, True):
                        yield {"cls": "AlternatingSectorsChain", "N": N, "chain_length": cl, "min": mn, "max": mx, "pbc": pbc}
    return it


# ----------------------------------------------------------------------------- adapters (reference definitions)

class Adapter:
    native = "qubo"
    weak_default = False
    own_bruteforce = False
    has_B = True

    def __init__(self, case):
        self.case = case

    def kwargs_sets(self):
        """[(label, kwargs, strict)]"""
        out = []
        for B in (1, 2, 0.5):
            for e in (EPS if B != 0.5 else EPS[:1]):
                out.append(("strict", {"A": self.threshold(B) + e, "B": B}, True))
        if self.weak_default:
            out.append(("default", {}, False))
        return out


class SC(Adapter):
    weak_default = True
    own_bruteforce = True

    def make(self, P):
        c = self.case
        self.U, self.V = set(c["U"]), [set(v) for v in c["V"]]
        self.w = c["weights"] or [1] * len(self.V)
        self.np_ = len(self.V)
        return P.SetCover(set(c["U"]), [set(v) for v in c["V"]], weights=c["weights"], log_trick=c["log_trick"])

    def feasible(self, x):
        cov = set()
        for i in range(self.np_):
            if x[i]:
                cov |= self.V[i]
        return cov == self.U

    def cost(self, x):
        return sum(self.w[i] for i in range(self.np_) if x[i])

    def decode(self, x):
        return frozenset(i for i in range(self.np_) if x[i])

    def norm(self, sol):
        return frozenset(sol)

    def threshold(self, B):
        return B


class VC(Adapter):
    weak_default = True

    def make(self, P):
        c = self.case
        L = gen.labels_for(c["scheme"], 4)
        self.edges = [(L[a], L[b]) for a, b in c["edges"]]
        verts = sorted({v for e in self.edges for v in e}, key=lambda x: (str(type(x)), x))
        self.verts = verts
        self.np_ = len(verts)
        return P.VertexCover(set(self.edges))

    def feasible(self, x):
        cover = {self.verts[i] for i in range(self.np_) if x[i]}
        return all(u in cover or v in cover for u, v in self.edges)

    def cost(self, x):
        return sum(x[:self.np_])

    def decode(self, x):
        return frozenset(self.verts[i] for i in range(self.np_) if x[i])

    def norm(self, sol):
        return frozenset(sol)

    def threshold(self, B):
        return B


class BI(Adapter):
    def make(self, P):
        c = self.case
        self.c, self.S, self.b = c["c"], c["S"], c["b"]
        self.np_ = len(self.c)
        return P.BILP(list(self.c), [list(r) for r in self.S], list(self.b))

    def feasible(self, x):
        return all(sum(r[i] * x[i] for i in range(self.np_)) == bj for r, bj in zip(self.S, self.b))

    def cost(self, x):
        return sum(self.c[i] * x[i] for i in range(self.np_))

    def decode(self, x):
        return tuple(int(v) for v in x[:self.np_])

    def norm(self, sol):
        return tuple(int(v) for v in sol)

    def threshold(self, B):
        return B * sum(abs(v) for v in self.c)


class JS(Adapter):
    weak_default = True
    own_bruteforce = True

    def make(self, P):
        c = self.case
        self.len_, self.m = c["lengths"], c["workers"]
        self.nj = len(self.len_)
        self.np_ = self.nj * self.m
        return P.JobSequencing(list(self.len_), self.m, log_trick=c["log_trick"])

    def feasible(self, x):
        return all(sum(x[j * self.m + w] for w in range(self.m)) == 1 for j in range(self.nj))

    def cost(self, x):
        return max(sum(self.len_[j] for j in range(self.nj) if x[j * self.m + w]) for w in range(self.m))

    def decode(self, x):
        return tuple(frozenset(j for j in range(self.nj) if x[j * self.m + w]) for w in range(self.m))

    def norm(self, sol):
        return tuple(frozenset(s) for s in sol)

    def threshold(self, B):
        return B * max(self.len_)


class GP(Adapter):
    native = "quso"
    weak_default = True

    def make(self, P):
        c = self.case
        E = [tuple(e) for e in c["edges"]]
        self.E = E
        self.w = c["weights"] or [1] * len(E)
        self.nv = 1 + max(v for e in E for v in e)
        self.np_ = self.nv
        deg = {}
        for e in E:
            for q in e:
                deg[q] = deg.get(q, 0) + 1
        self.maxdeg = max(deg.values())
        self.prob = P.GraphPartitioning(set(E) if c["weights"] is None else dict(zip(E, self.w)))
        return self.prob

    def vertex_of(self, i):
        return self.prob._index_to_vertex[i] if False else None

    def feasible(self, x):
        return 2 * sum(x[:self.nv]) == self.nv

    def decode(self, x):
        # index -> vertex goes through the problem's own public decode of unit assignments (order of a python set)
        return None

    def threshold(self, B):
        return B * min(2 * self.maxdeg, self.nv) / 8


class NP_(Adapter):
    native = "quso"
    weak_default = True
    has_B = False

    def make(self, P):
        c = self.case
        self.S = c["S"]
        self.np_ = len(self.S)
        return P.NumberPartitioning(list(self.S) if c["type"] == "list" else tuple(self.S))

    def feasible(self, x):
        a = sum(s for s, v in zip(self.S, x) if v)
        return 2 * a == sum(self.S)

    def cost(self, x):
        return 0

    def decode(self, x):
        p1 = tuple(sorted(s for s, v in zip(self.S, x) if v))
        p2 = tuple(sorted(s for s, v in zip(self.S, x) if not v))
        return frozenset([("a", p1), ("b", p2)]) if False else tuple(sorted([p1, p2]))

    def norm(self, sol):
        return tuple(sorted([tuple(sorted(sol[0])), tuple(sorted(sol[1]))]))

    def kwargs_sets(self):
        return [("strict", {"A": 1}, True), ("strict", {"A": 0.5}, True), ("default", {}, False)]


class AS(Adapter):
    native = "quso"
    has_B = False

    def make(self, P):
        c = self.case
        self.np_ = c["N"]
        return P.AlternatingSectorsChain(c["N"], chain_length=c["chain_length"], min_strength=c["min"], max_strength=c["max"])

    def feasible(self, x):
        return len(set(x[:self.np_])) <= 1

    def cost(self, x):
        return None

    def decode(self, x):
        return tuple(1 - 2 * v for v in x[:self.np_])

    def norm(self, sol):
        return tuple(sol)

    def kwargs_sets(self):
        return [("strict", {"pbc": self.case["pbc"]}, True)]


ADAPTERS = {"SetCover": SC, "VertexCover": VC, "BILP": BI, "JobSequencing": JS, "GraphPartitioning": GP,
            "NumberPartitioning": NP_, "AlternatingSectorsChain": AS}


def check(case, st):
    qv = paths.import_qubovert()
    import qubovert.problems as P
    ad = ADAPTERS[case["cls"]](case)
    cls = case["cls"]

    def v(kind, msg):
        st.violation("%s|%s" % (cls, kind), case, "C10 %s: %s" % ({k: val for k, val in case.items()}, msg))
    prob, _w = call(ad.make, P)
    if isinstance(prob, Raised):
        v("constructor-raises-" + prob.kind, "constructor raised %r" % prob.exc)
        return
    n = prob.num_binary_variables
    npv = ad.np_
    if n > MAXV:
        st.skipped["%s formulation with more than %d variables" % (cls, MAXV)] += 1
        return
    if npv > n:
        v("nbv", "num_binary_variables = %d but the problem has %d decision variables" % (n, npv))
        return
    st.nontrivial += 1
    # ---------------- reference over the decision variables
    X = list(itertools.product((0, 1), repeat=npv))
    feas = [ad.feasible(list(x)) for x in X]
    # GraphPartitioning: cut weight needs the vertex of each index -> use the class's decode of single-vertex assignments
    if cls == "GraphPartitioning":
        idx2v = {}
        for i in range(npv):
            unit = [1 if j == i else 0 for j in range(npv)]
            r, _w = call(prob.convert_solution, unit)
            if isinstance(r, Raised) or len(r[0]) != 1:
                v("convert_solution", "unit assignment %r decodes to %r" % (unit, r))
                return
            idx2v[i] = next(iter(r[0]))
        if sorted(idx2v.values()) != list(range(npv)):
            v("convert_solution", "indices do not decode to distinct vertices: %r" % idx2v)
            return

        def cost(x):
            side = {idx2v[i]: x[i] for i in range(npv)}
            return sum(w for (a, b), w in zip(ad.E, ad.w) if side[a] != side[b])

        def decode(x):
            return frozenset([frozenset(idx2v[i] for i in range(npv) if x[i]), frozenset(idx2v[i] for i in range(npv) if not x[i])])

        def norm(sol):
            return frozenset([frozenset(sol[0]), frozenset(sol[1])])
        ad.cost, ad.decode, ad.norm = cost, decode, norm
    anyfeas = any(feas)
    opt = min((ad.cost(list(x)) for x, f in zip(X, feas) if f), default=None) if cls != "AlternatingSectorsChain" else None

    # ---------------- is_solution_valid / convert_solution on every assignment of the decision variables (ancillas 0)
    for x, f in zip(X, feas):
        full = list(x) + [0] * (n - npv)
        zfull = [1 - 2 * b for b in full]
        want = ad.decode(list(x))
        for form, sol, flag in (("bool-list", full, False), ("bool-dict", dict(enumerate(full)), False),
                                ("spin-list", zfull, True), ("spin-dict", dict(enumerate(zfull)), True),
                                # the same assignments as dicts whose insertion order is not the label order
                                ("bool-dict-reversed", dict(reversed(list(enumerate(full)))), False),
                                ("spin-dict-reversed", dict(reversed(list(enumerate(zfull)))), True)):
            st.transitions += 2
            st.traces += 2
            r, _w = call(prob.convert_solution, sol, flag)
            if isinstance(r, Raised):
                v("convert_solution-raises-" + r.kind, "convert_solution(%r, spin=%s) raised %r" % (sol, flag, r.exc))
                return
            got = ad.norm(r)
            if cls in ("GraphPartitioning", "NumberPartitioning"):
                pass   # unordered pair: the two sides swap between boolean and spin form
            if got != want:
                v("convert_solution", "convert_solution(%r, spin=%s) = %r, reference decoding %r" % (sol, flag, r, want))
                return
            ok, _w = call(prob.is_solution_valid, sol, flag)
            ok2, _w = call(prob.is_solution_valid, r)
            if isinstance(ok, Raised) or isinstance(ok2, Raised) or bool(ok) != f or bool(ok2) != f:
                v("is_solution_valid", "is_solution_valid(%r, spin=%s) = %r, on the decoded solution %r; reference feasibility %s" % (sol, flag, ok, ok2, f))
                return
    # ---------------- ground states
    if not anyfeas:
        st.outcomes["%s infeasible instance (validity/decoding oracles only)" % cls] += 1
        return
    for label, kw, strict in ad.kwargs_sets():
        B = kw.get("B", 1)
        for form in ("to_qubo", "to_quso"):
            st.transitions += 1
            st.traces += 1
            D, _w = call(getattr(prob, form), **kw)
            if isinstance(D, Raised):
                v("%s-raises-%s" % (form, D.kind), "%s(%r) raised %r" % (form, kw, D.exc))
                continue
            used = {l for k in D for l in k}
            if any((not isinstance(l, (int, np.integer))) or l < 0 or l >= n for l in used):
                v("labels", "%s(%r) uses labels %r outside 0..%d" % (form, kw, sorted(used, key=repr), n - 1))
                continue
            tspin = form == "to_quso"
            tab = rp.tt(D, list(range(n)), tspin)
            mn = float(tab.min())
            G = np.nonzero(np.abs(tab - mn) <= 1e-9 * (1 + abs(mn)))[0]
            if cls == "AlternatingSectorsChain":
                want_e = None
            elif cls == "NumberPartitioning":
                want_e = 0.0
            else:
                want_e = B * opt
            if want_e is not None and abs(mn - want_e) > 1e-9 * (1 + abs(want_e)):
                v("ground-energy|%s" % label, "%s(%r): ground energy %r, optimal cost (times B) %r" % (form, kw, mn, want_e))
                continue
            good = 0
            firstbad = None
            for a in G:
                a = int(a)
                x = [(a >> j) & 1 for j in range(npv)]
                sol = rp.assignment(a, list(range(n)), tspin)
                r, _w = call(prob.convert_solution, [sol[i] for i in range(n)], tspin)
                okdec = (not isinstance(r, Raised)) and ad.norm(r) == ad.decode(x)
                isv, _w = call(prob.is_solution_valid, [sol[i] for i in range(n)], tspin)
                ok = okdec and ad.feasible(x) and (opt is None or abs(ad.cost(x) - opt) <= 1e-9) and (not isinstance(isv, Raised)) and bool(isv)
                if ok:
                    good += 1
                elif firstbad is None:
                    firstbad = (sol, r, ad.feasible(x), None if opt is None else ad.cost(x), isv)
            st.outcomes["%s %s ground states=%d all-good=%s" % (cls, label, min(len(G), 9), good == len(G))] += 1
            if strict and good != len(G):
                v("ground-state|strict", "%s(%r): ground state %r decodes to %r (feasible=%s, cost=%r, optimum=%r, is_solution_valid=%r)"
                  % ((form, kw) + firstbad[:4] + (opt, firstbad[4])))
            elif not strict and good == 0:
                v("ground-state|default", "%s(): no ground state decodes to a feasible optimal solution; e.g. %r -> %r (feasible=%s, cost=%r, optimum=%r)"
                  % ((form,) + firstbad[:4] + (opt,)))
    # ---------------- problem-specific solve_bruteforce
    if ad.own_bruteforce:
        for alls in (False, True):
            st.transitions += 1
            r, _w = call(prob.solve_bruteforce, all_solutions=alls)
            if isinstance(r, Raised):
                v("solve_bruteforce-raises-" + r.kind, "solve_bruteforce(all_solutions=%s) raised %r" % (alls, r.exc))
                continue
            sols = r if alls else [r]
            optimal = {ad.decode(list(x)) for x, f in zip(X, feas) if f and abs(ad.cost(list(x)) - opt) <= 1e-9}
            got = [ad.norm(s) for s in sols]
            if any(g not in optimal for g in got) or not got:
                v("solve_bruteforce", "solve_bruteforce(all_solutions=%s) = %r, optimal feasible solutions %r" % (alls, r, sorted(optimal, key=repr)))
            elif alls and cls == "SetCover" and set(got) != optimal:
                v("solve_bruteforce-all", "solve_bruteforce(all_solutions=True) = %r misses optimal solutions %r" % (r, sorted(optimal - set(got), key=repr)))


    # ---------------- the generic solve_bruteforce forwards its arguments to to_qubo: weights given POSITIONALLY, chosen so small
    # that violating the constraint is optimal (a different minimiser set than with the default weights)
    import inspect
    from qubovert.problems import Problem
    if type(prob).solve_bruteforce is Problem.solve_bruteforce:
        try:
            params = [q for q in inspect.signature(prob.to_qubo).parameters if q in ("A", "B")]
        except (TypeError, ValueError):
            params = []
        if params:
            pos = tuple({"A": 0.125, "B": 1}[q] for q in params)
            Q, _w = call(prob.to_qubo, *pos)
            r, _w = call(prob.solve_bruteforce, *pos, all_solutions=True)
            st.transitions += 1
            if isinstance(Q, Raised) or isinstance(r, Raised):
                # weights below the documented thresholds are outside the statement; with them a variable's coefficient can cancel
                # exactly and the decoder then fails on the smaller model (same family as D8 / D9): not judged here
                st.outcomes["generic solve_bruteforce with sub-threshold positional weights raised (not judged)"] += 1
            else:
                nq = Q.num_binary_variables
                if nq <= MAXV:
                    t = rp.tt(dict(Q), list(range(nq)), False)
                    mn = t.min()
                    want = {ad.norm(prob.convert_solution(rp.assignment(a, list(range(nq)), False))) for a in range(1 << nq) if t[a] <= mn + 1e-9}
                    got = {ad.norm(x) for x in r}
                    if got != want:
                        v("solve_bruteforce-positional", "solve_bruteforce%r (all_solutions) = %r, but the minimisers of to_qubo%r decode to %r "
                          "(positional arguments are documented to be forwarded to to_qubo)" % (pos, sorted(got, key=repr), pos, sorted(want, key=repr)))


def run(ctx):
    ctx.bounds = {"SetCover": "|U|<=3, <=3 covering subsets (plus one element in 4..7 subsets), weights None or patterns over {1,.5,.25} with max 1, log_trick both",
                  "VertexCover": "all edge sets (incl. self-loops) on <=4 vertices" + (" (<=5 edges on 4 vertices)" if ctx.quick else "") + ", int and str labels",
                  "BILP": "N<=2,m<=2 and N=3,m=1 over {-1,0,1,2}" + ("" if ctx.quick else "; N=3,m=2 with c over {-1,1,2}") + ", b = S x0 for every x0",
                  "JobSequencing": "<=3 jobs of length 1..3, 1-3 workers, log_trick both, <=%d formulation variables" % MAXV,
                  "GraphPartitioning": "all graphs without isolated vertices on 2, 4" + ("" if ctx.quick else ", 6 (<=5 edges)") + " vertices; edge sets and unit-weight dicts",
                  "NumberPartitioning": "multisets of <=5 numbers from 1..4, list and tuple; 6 instances with numbers around 1e5..1e6 (near misses by 1)", "AlternatingSectorsChain": "N<=6, chain length 2,3, four strength pairs, pbc both",
                  "weights": "strict: threshold + {1/8, 1}, B in {1,2} and threshold + 1/8 with B = 1/2; defaults for the five classes of the statement"}
    ctx.rule = "case = one problem instance (all weights/forms/assignments inside); all are non-trivial"
    explore_cases(ctx, gen_cases(ctx.tier), check, label="C10")


def replay(case):
    st = Stats()
    check(case, st)
    return [(s, m) for s, c, m in st.viol]
