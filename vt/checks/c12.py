"""C12 -- annealer dynamics are reproducible Metropolis sweeps.

Engine C (stateless DFS over the scripted RNG tape) on the real kernels rebuilt from /repo:
 1. positive temperature: ALL tapes of short schedules -> exact final-state distribution of the
    implementation, compared with the reference Metropolis chain;
 2. zero temperature: all models of a coefficient grid x all initial states (in order: no draws;
    random order: all visiting tapes): monotone, and equal to the reference descent when no tie occurs;
 3. reproducibility: plain build, fixed seeds, same process and fresh process; scripted build: the
    generator is seeded from the seed alone (independent of the scripted clock).
"""
import itertools
import json
import math
import os
import subprocess
import sys

import numpy as np

from .. import gen, paths, tape as tp, tapedfs, cbuild
from ..common import call, Raised, short
from ..ref import poly as rp, metropolis as mp
from ..runner import Stats, pmap, NWORKERS, HarnessError

ID = "C12"
META = {
    "engine": "tapedfs",
    "technique": "stateless DFS over ALL answers of a scripted RNG linked into the real C kernels (exact output distribution by path weights) vs reference Metropolis chain; exhaustive zero-temperature grid; exhaustive enumeration of the generator seam over all 2^32 words; seed-replay on the stock build",
    "text": "The kernels are rebuilt from /repo with the vendored PCG replaced at link time by a tape; every random draw is a choice point. For quadratic and cubic models on 2-3 spins, every "
            "initial state, schedules [T]*k and [T1,T2] (k*N <= 6 in order, <= 4 random order, T in {1,2}) ALL tapes are enumerated (random words cut at every acceptance threshold the reference "
            "can predict plus 1/2, two probes per interval), giving the implementation's exact final-state distribution, which must match the reference chain to 1e-7. Zero temperature: all 5^6 "
            "quadratic QUSOMatrix models over 3 spins (and relabelled QUSO/QUBO forms, cubic models) x all initial states: value never increases and equals the reference descent when no tie "
            "occurs; all random visiting tapes. Reproducibility on the stock build for 4 seeds in-process and across processes. Generator seam: REPO's random.c is linked against a "
            "generator whose first word is an argument; rand_int(rng, N) (N in {2,3,4,5,8} quick / 2..16 thorough) and rand_double are evaluated for ALL 2^32 words: in range, every site "
            "with probability 1/N +- 1e-8, rand_double = word * 2^-32 (the assumption behind the cut menus). Vendored generator: for every seed < 2^24 (quick) / every non-negative int seed "
            "(thorough) the first 4 words of rand_init(seed) equal an independent implementation of the published PCG32 (if they do not: top-4-bit frequencies over the seeds within 0.5% of 1/16).",
    "note": "The distributional claim is exact conditional on PCG32 delivering uniform words (the vendored copy is compared with the published algorithm; its bounded-integer rejection loop is bypassed by the shim and re-implemented in the seam driver). "
            "Part 1 cuts words at acceptance thresholds only; a kernel that draws its sites from a raw word is enumerated twice with different probes and decided only if both agree "
            "(else counted undecided; the seam part decides the site law). Bounded: <=3 spins, <=6 update steps.",
}

TOL = 1e-7


def sim():
    tp.lib()
    import qubovert.sim as s
    return s


# ------------------------------------------------------------------ model -> (energy table in visiting order, labels in visiting order)

def visiting_labels(kind, cont, M, deg2):
    """Labels in the order the front end enumerates them (= index order of the kernel = in-order visiting order).
    Obtained with the same public constructors / conversions the front end documents."""
    qv = paths.import_qubovert()
    if cont in gen.MATRIX:
        top = max((l for k in M for l in k), default=-1)
        return list(range(top + 1))
    if kind == "spin":
        H = M if cont in ("QUSO", "PUSO", "PCSO") else (qv.QUSO(M) if deg2 else qv.PUSO(M))
    else:
        H = qv.utils.qubo_to_quso(M) if deg2 else qv.utils.pubo_to_puso(M)
    mpg = H.mapping
    inv = {i: l for l, i in mpg.items()}
    return [inv[i] for i in range(len(inv))]


def anneal_fn(kind, deg2):
    s = sim()
    if kind == "spin":
        return s.anneal_quso if deg2 else s.anneal_puso
    return s.anneal_qubo if deg2 else s.anneal_pubo


MODELS = [
    # (name, kind, container, dict over indices, quadratic kernel?)
    ("ferro2", "spin", "QUSOMatrix", {(0, 1): -1}, True),
    ("chain3", "spin", "QUSOMatrix", {(0, 1): 1, (1, 2): -1}, True),
    ("field3", "spin", "QUSO", {(0,): 1, (0, 1): -1, (1, 2): 1, (): 0.5}, True),
    ("tri3", "spin", "dict", {(0, 1): 1, (1, 2): 1, (0, 2): 1}, True),
    ("qubo2", "bool", "QUBOMatrix", {(0,): -1, (0, 1): 2, (1,): -1}, True),
    ("qubo3", "bool", "QUBO", {(0, 1): 2, (1, 2): -2, (2,): 1}, True),
    ("cubic3", "spin", "PUSOMatrix", {(0, 1, 2): -1}, False),
    ("cubic3f", "spin", "PUSO", {(0, 1, 2): 1, (0,): 1}, False),
    ("cubic3q", "spin", "PUSOMatrix", {(0, 1, 2): 1, (0, 1): -1}, False),
    ("pubo3", "bool", "PUBO", {(0, 1, 2): 2, (1,): -1}, False),
    ("gap3", "spin", "QUSOMatrix", {(0, 2): -1, (2,): 1}, True),          # isolated variable 1 (label gap)
    # a quadratic Matrix model handed to the POLYNOMIAL kernel's front end, terms inserted with label 1 and 2 first
    # (in-order visiting is label order for integer-labelled Matrix models, whichever front end is used)
    ("chain3-via-puso", "spin", "QUSOMatrix", {(1, 2): -1, (0, 1): 1, (2,): 0.5}, False),
]


def build_model(name):
    for nm, kind, cont, D, deg2 in MODELS:
        if nm == name:
            scheme = "int" if cont in gen.MATRIX else "rstr"
            n = 1 + max(i for k in D for i in k)
            DL = gen.relabel(D, scheme, n)
            M = dict(DL) if cont == "dict" else gen.build(cont, DL)
            return kind, cont, M, DL, deg2
    raise KeyError(name)


def schedules(N, in_order, tier):
    out = []
    maxsteps = 6 if in_order else 4
    if tier == "quick":
        maxsteps = 6 if in_order else 3
    for T in (1, 2):
        k = 1
        while k * N <= maxsteps:
            out.append([T] * k)
            k += 1
    if 2 * N <= maxsteps:
        out.append([2, 1])
        out.append([1, 2])
        out.append([1, 0])      # a zero-temperature sweep after a positive one
        out.append([0, 2])
    return out


def dist_cases(tier):
    for nm, kind, cont, D, deg2 in MODELS:
        N = 1 + max(i for k in D for i in k)
        for in_order in (True, False):
            for Ts in schedules(N, in_order, tier):
                for start in range(1 << N):
                    yield {"part": "dist", "model": nm, "in_order": in_order, "Ts": Ts, "start": start}


def check_dist(case, st, max_runs=5_000_000):
    kind, cont, M, DL, deg2 = build_model(case["model"])
    spin = kind == "spin"
    labels = visiting_labels(kind, cont, M, deg2)
    N = len(labels)
    E = rp.tt(DL, labels, spin)
    Ts = [float(t) for t in case["Ts"]]
    start = case["start"]
    init = rp.assignment(start, labels, spin)
    f = anneal_fn(kind, deg2)
    cuts = sorted(set(mp.thresholds(E, N, Ts)) | {0.5})
    menu = tapedfs.cuts_to_menu(cuts)
    idx = {l: j for j, l in enumerate(labels)}

    def fn():
        import warnings
        with warnings.catch_warnings():
            warnings.simplefilter("ignore")
            # anneal_duration is documented as ignored when an explicit schedule is given: pass a shorter one in the in-order cases
            if case["in_order"]:
                return f(M, num_anneals=1, anneal_duration=1, initial_state=init, schedule=Ts, in_order=True, seed=0)
            return f(M, num_anneals=1, initial_state=init, schedule=Ts, in_order=case["in_order"], seed=0)

    def outcome(res):
        s = res[0].state
        a = 0
        for l, v in s.items():
            bit = (1 - v) // 2 if spin else v
            a |= int(bit) << idx[l]
        return a

    deviated = [False]

    def word_menu(i, log, prefix):
        if not case["in_order"] and not deviated[0]:
            r = simulate(E, N, start, Ts, False, prefix)
            if r[0] != "word":
                deviated[0] = True
        return menu

    dist, runs, leaves, cps = tapedfs.enumerate_all(fn, word_menu, outcome, max_runs=max_runs)
    if deviated[0]:
        # A random word is requested where the textbook discipline draws a site with boundedrand: the kernel may map that word
        # to a site in a way whose breakpoints are not in the cut set, so one representative per interval need not be exact.
        # Decide only if a second enumeration with different representatives of the same intervals gives the same distribution.
        menu_b = tapedfs.cuts_to_menu(cuts, alt=True)
        dist_b, runs_b, _l, _c = tapedfs.enumerate_all(fn, lambda i, log, prefix: menu_b, outcome, max_runs=max_runs)
        runs += runs_b
        keys = set(dist) | set(dist_b)
        if any(abs(dist.get(k, 0.0) - dist_b.get(k, 0.0)) > TOL for k in keys):
            st.outcomes["dist: site chosen from a random word with breakpoints outside the cut set -> undecided here (see seam part)"] += 1
            st.traces += runs
            return
    st.traces += runs
    st.transitions += cps
    st.states += leaves - 1
    st.extra["tapes_executed"] = st.extra.get("tapes_executed", 0) + runs
    ref = mp.final_distribution(E, N, start, Ts, case["in_order"])
    got = np.zeros(1 << N)
    for a, p in dist.items():
        got[a] = p
    tot = float(got.sum())
    if leaves > 1:
        st.nontrivial += 1
    st.outcomes["%d distinct final states" % int((got > 0).sum())] += 1
    if abs(tot - 1) > 1e-9:
        raise HarnessError("path weights sum to %r, not 1 (case %r)" % (tot, case))
    err = float(np.abs(got - ref).max())
    if err > TOL:
        a = int(np.abs(got - ref).argmax())
        st.violation("distribution|%s|%s|%s" % ("quadratic-kernel" if deg2 else "polynomial-kernel", "in-order" if case["in_order"] else "random-order", kind),
                     case, "C12 %s %s(%s) from %r, schedule %r, in_order=%s: P(final = %r) = %.9f by enumerating all %d tapes, reference Metropolis chain gives %.9f (max abs error %.3g)"
                     % (case["model"], f.__name__, short(dict(DL), 120), init, Ts, case["in_order"], rp.assignment(a, labels, spin), got[a], leaves, ref[a], err))


def simulate(E, N, start, Ts, in_order, tape):
    """Reference chain driven by a tape under the textbook draw discipline (site draw in random order; one word per
    decision with dE > 0 and T > 0).  Returns ("site", N) / ("word", p) if the tape runs out, else ("done", final)."""
    a, pos = start, 0
    for T in Ts:
        for j in range(N):
            if in_order:
                i = j
            else:
                if pos >= len(tape):
                    return ("site", N)
                i = tape[pos] % N
                pos += 1
            dE = E[a ^ (1 << i)] - E[a]
            if dE <= 0:
                a ^= 1 << i
            elif T > 0:
                p = math.exp(-dE / T)
                if pos >= len(tape):
                    return ("word", p)
                w = tape[pos]
                pos += 1
                if w / 4294967296.0 < p:
                    a ^= 1 << i
    return ("done", a)


def joint_cases(tier):
    """Two anneals from one supplied initial state: the pair of final states must be distributed as the product of the
    single-anneal reference distribution with itself (each anneal starts from the supplied state)."""
    for nm, kind, cont, D, deg2 in MODELS:
        N = 1 + max(i for k in D for i in k)
        if N > 3:
            continue
        for in_order in (True, False):
            for Ts in ([1], [2]):
                if (not in_order) and N > 2:
                    continue      # random order: both anneals' site and acceptance draws multiply; two-spin models only
                for start in range(1 << N):
                    yield {"part": "joint", "model": nm, "in_order": in_order, "Ts": Ts, "start": start}


def check_joint(case, st):
    kind, cont, M, DL, deg2 = build_model(case["model"])
    spin = kind == "spin"
    labels = visiting_labels(kind, cont, M, deg2)
    N = len(labels)
    E = rp.tt(DL, labels, spin)
    Ts = [float(t) for t in case["Ts"]]
    start = case["start"]
    init = rp.assignment(start, labels, spin)
    f = anneal_fn(kind, deg2)
    idx = {l: j for j, l in enumerate(labels)}
    deviation = [None]

    def word_menu(i, log, prefix):
        # local menu (cut at the threshold the reference predicts for the current decision); the draw discipline it relies on
        # is verified on every tape, as in check_distlocal.  Two anneals: the second continues on the same tape.
        r = simulate(E, N, start, Ts, case["in_order"], prefix)
        if r[0] == "done":
            used = simulate_used(E, N, start, Ts, case["in_order"], prefix)
            r = simulate(E, N, start, Ts, case["in_order"], prefix[used:])
        if r[0] != "word":
            deviation[0] = "position %d: reference expects %r" % (i, r)
            return tapedfs.cuts_to_menu([0.5])
        return tapedfs.cuts_to_menu([r[1]])

    def fn():
        import warnings
        with warnings.catch_warnings():
            warnings.simplefilter("ignore")
            return f(M, num_anneals=2, initial_state=init, schedule=Ts, in_order=case["in_order"], seed=0)

    def outcome(res):
        out = []
        for r in res:
            a = 0
            for l, v in r.state.items():
                bit = (1 - v) // 2 if spin else v
                a |= int(bit) << idx[l]
            out.append(a)
        return tuple(out)
    dist, runs, leaves, cps = tapedfs.enumerate_all(fn, word_menu, outcome, max_runs=200_000)
    st.traces += runs
    st.transitions += cps
    st.states += leaves - 1
    st.extra["tapes_executed"] = st.extra.get("tapes_executed", 0) + runs
    if deviation[0]:
        st.outcomes["joint: discipline deviation -> single-anneal configuration re-checked with the global menu"] += 1
        return check_dist(dict(case, part="dist"), st)
    ref = mp.final_distribution(E, N, start, Ts, case["in_order"])
    if leaves > 1:
        st.nontrivial += 1
    worst, wa = 0.0, None
    for a in range(1 << N):
        for b in range(1 << N):
            err = abs(dist.get((a, b), 0.0) - ref[a] * ref[b])
            if err > worst:
                worst, wa = err, (a, b)
    st.outcomes["joint: %d distinct pairs" % len(dist)] += 1
    if worst > TOL:
        a, b = wa
        st.violation("joint-distribution|%s|%s|%s" % ("quadratic-kernel" if deg2 else "polynomial-kernel", "in-order" if case["in_order"] else "random-order", kind),
                     case, "C12 %s %s from %r, schedule %r, in_order=%s, num_anneals=2: P(finals = (%r, %r)) = %.9f over all %d tapes, but two independent anneals from the supplied "
                     "state give %.9f" % (case["model"], f.__name__, init, Ts, case["in_order"], rp.assignment(a, labels, spin), rp.assignment(b, labels, spin),
                                          dist.get((a, b), 0.0), leaves, ref[a] * ref[b]))


def simulate_used(E, N, start, Ts, in_order, tape):
    """Number of tape entries one complete reference anneal consumes (tape must be long enough)."""
    a, pos = start, 0
    for T in Ts:
        for j in range(N):
            if in_order:
                i = j
            else:
                i = tape[pos] % N
                pos += 1
            dE = E[a ^ (1 << i)] - E[a]
            if dE <= 0:
                a ^= 1 << i
            elif T > 0:
                if tape[pos] / 4294967296.0 < math.exp(-dE / T):
                    a ^= 1 << i
                pos += 1
    return pos


def local_cases(tier):
    """Deeper schedules, enumerated with a LOCAL menu (cut only at the threshold the reference predicts for the current
    decision).  Sound only if the implementation follows the textbook draw discipline, which is verified on every tape:
    a request the reference does not predict makes the configuration 'discipline-deviation' (counted, not a violation --
    part 1 above makes no such assumption)."""
    for nm, kind, cont, D, deg2 in MODELS:
        N = 1 + max(i for k in D for i in k)
        for in_order in (True, False):
            maxsteps = (9 if in_order else 6) if tier != "quick" else (6 if in_order else 4)
            scheds = []
            for Ts in ([1, 2, 0.5], [2, 1, 1], [0.5] * 3, [1, 0], [3, 0.25], [0.5, 2], [1] * 4, [2, 1, 0.5, 0.25]):
                if len(Ts) * N <= maxsteps:
                    scheds.append(Ts)
            for Ts in scheds:
                for start in range(1 << N):
                    yield {"part": "distlocal", "model": nm, "in_order": in_order, "Ts": Ts, "start": start}


def check_distlocal(case, st):
    kind, cont, M, DL, deg2 = build_model(case["model"])
    spin = kind == "spin"
    labels = visiting_labels(kind, cont, M, deg2)
    N = len(labels)
    E = rp.tt(DL, labels, spin)
    Ts = [float(t) for t in case["Ts"]]
    start = case["start"]
    init = rp.assignment(start, labels, spin)
    f = anneal_fn(kind, deg2)
    idx = {l: j for j, l in enumerate(labels)}
    deviation = [None]

    def fn():
        import warnings
        with warnings.catch_warnings():
            warnings.simplefilter("ignore")
            return f(M, num_anneals=1, initial_state=init, schedule=Ts, in_order=case["in_order"], seed=0)

    def outcome(res):
        a = 0
        for l, v in res[0].state.items():
            bit = (1 - v) // 2 if spin else v
            a |= int(bit) << idx[l]
        return a

    def word_menu(i, log, prefix):
        r = simulate(E, N, start, Ts, case["in_order"], prefix)
        if r[0] != "word":
            deviation[0] = "implementation asks for a random word at position %d where the reference expects %r" % (i, r)
            return tapedfs.cuts_to_menu([0.5])
        return tapedfs.cuts_to_menu([r[1]])

    dist, runs, leaves, cps = tapedfs.enumerate_all(fn, word_menu, outcome, max_runs=3_000_000)
    st.traces += runs
    st.transitions += cps
    st.states += leaves - 1
    st.extra["tapes_executed"] = st.extra.get("tapes_executed", 0) + runs
    if deviation[0]:
        # the local menu is only sound under the textbook draw discipline: redo this configuration with the global cut set,
        # which assumes nothing about when the implementation draws
        st.outcomes["distlocal: discipline deviation -> re-checked with the global menu"] += 1
        try:
            return check_dist(dict(case, part="dist"), st, max_runs=200_000)
        except tapedfs.TooManyRuns:
            # too deep for the assumption-free menu: this configuration stays undecided here (the shallower schedules of the
            # global part are enumerated without any assumption on the draw discipline)
            st.outcomes["distlocal: discipline deviation, too deep for the global menu -> undecided"] += 1
            return
    ref = mp.final_distribution(E, N, start, Ts, case["in_order"])
    got = np.zeros(1 << N)
    for a, p in dist.items():
        got[a] = p
    if leaves > 1:
        st.nontrivial += 1
    st.outcomes["local: %d distinct final states" % int((got > 0).sum())] += 1
    err = float(np.abs(got - ref).max())
    if err > TOL:
        a = int(np.abs(got - ref).argmax())
        st.violation("distribution-local|%s|%s|%s" % ("quadratic-kernel" if deg2 else "polynomial-kernel", "in-order" if case["in_order"] else "random-order", kind),
                     case, "C12 %s %s(%s) from %r, schedule %r, in_order=%s: P(final = %r) = %.9f by enumerating all %d tapes (local menus), reference chain gives %.9f (max abs error %.3g)"
                     % (case["model"], f.__name__, short(dict(DL), 120), init, Ts, case["in_order"], rp.assignment(a, labels, spin), got[a], leaves, ref[a], err))


# ------------------------------------------------------------------ zero temperature

GRID = (-1, -0.5, 0, 0.5, 1)


def zero_cases(tier):
    keys = [(0,), (1,), (2,), (0, 1), (0, 2), (1, 2)]
    n = 0
    for combo in itertools.product(GRID, repeat=6):
        n += 1
        yield {"part": "zero", "family": "quadratic", "coefs": list(combo)}
    for c3 in (-1, 0.5, 1):
        for others in itertools.product((-1, 0, 0.5), repeat=4):
            yield {"part": "zero", "family": "cubic", "coefs": [c3] + list(others)}
    # scale slice: the same descent on models scaled by exact powers of two (energy differences of 1e-15 resp. 1e12)
    for sc in (-50, 40):
        for c3 in (-1, 0.5, 1):
            for others in itertools.product((-1, 0, 0.5), repeat=4):
                yield {"part": "zero", "family": "cubic", "coefs": [c3] + list(others), "log2_scale": sc}
        for j, combo in enumerate(itertools.product(GRID, repeat=6)):
            if j % 61 == 0:
                yield {"part": "zero", "family": "quadratic", "coefs": list(combo), "log2_scale": sc}
    for nm in ("chain3", "field3", "cubic3f", "ferro2"):
        yield {"part": "zero-random", "model": nm}


def check_zero(case, st):
    s = sim()
    qv = paths.import_qubovert()
    if case["family"] == "quadratic":
        keys = [(0,), (1,), (2,), (0, 1), (0, 2), (1, 2)]
        D = {k: v for k, v in zip(keys, case["coefs"]) if v}
        forms = [("QUSOMatrix", "spin", True, s.anneal_quso), ("PUSOMatrix", "spin", False, s.anneal_puso), ("QUSOMatrix-rev", "spin", True, s.anneal_quso)]
    else:
        keys = [(0, 1, 2), (0,), (1,), (0, 1), (1, 2)]
        D = {k: v for k, v in zip(keys, case["coefs"]) if v}
        forms = [("PUSOMatrix", "spin", False, s.anneal_puso)]
    if not any(k for k in D):
        return
    scale = 2.0 ** case.get("log2_scale", 0)
    D = {k: v * scale for k, v in D.items()}
    top = max(i for k in D for i in k)
    N = top + 1
    labels = list(range(N))
    E = rp.tt(D, labels, True)
    # boolean forms of the same function (exact: dyadic coefficients)
    for cont, kind, deg2, f in forms:
        # "-rev": the same terms inserted in the opposite order (the kernel's neighbour lists follow insertion order)
        M = gen.build(cont, D) if not cont.endswith("-rev") else gen.build(cont[:-4], dict(reversed(list(D.items()))))
        for nsweeps, Ts in ((1, [0.0]), (2, [0.0, 0.0])):
            for start in range(1 << N):
                init = rp.assignment(start, labels, True)

                def fn():
                    import warnings
                    with warnings.catch_warnings():
                        warnings.simplefilter("ignore")
                        return f(M, num_anneals=3, anneal_duration=1, initial_state=init, schedule=Ts, in_order=True, seed=0)
                res, log = tp.run([], fn)
                st.traces += 1
                st.transitions += 1
                want, tie = mp.zero_temp_sweeps(E, N, start, nsweeps)
                # every one of the anneals starts from the supplied state: without ties all results are the reference state
                finals = []
                for r in res:
                    a = 0
                    for l, v in r.state.items():
                        a |= ((1 - v) // 2) << l
                    finals.append(a)
                if len(res) != 3:
                    st.violation("zero-temp|count|%s" % f.__name__, dict(case, start=start, Ts=Ts), "C12 %s returned %d results for num_anneals=3" % (f.__name__, len(res)))
                    continue
                if not tie and any(x != want for x in finals[1:]) and finals[0] == want:
                    st.violation("zero-temp|later-anneal-differs|%s" % f.__name__, dict(case, start=start, Ts=Ts),
                                 "C12 %s(%s %s) at T=0, %d sweep(s) in order from %r with num_anneals=3: the anneals end in %r, every one must end in the reference state %r "
                                 "(each anneal starts from the supplied initial state)" % (f.__name__, cont, D, nsweeps, init, finals, want))
                a = finals[0]
                if E[a] > E[start] + 1e-12 * scale:
                    st.violation("zero-temp|energy-increased|%s" % f.__name__, dict(case, start=start, Ts=Ts),
                                 "C12 %s(%s %s) at T=0 from %r: final value %r > initial value %r" % (f.__name__, cont, D, init, E[a], E[start]))
                elif not tie and a != want:
                    st.violation("zero-temp|final-state|%s" % f.__name__, dict(case, start=start, Ts=Ts),
                                 "C12 %s(%s %s) at T=0, %d sweep(s) in order from %r: final state %r, reference descent gives %r"
                                 % (f.__name__, cont, D, nsweeps, init, rp.assignment(a, labels, True), rp.assignment(want, labels, True)))
                if abs(res[0].value - E[a]) > 1e-9 * scale:
                    st.violation("zero-temp|value|%s" % f.__name__, dict(case, start=start, Ts=Ts),
                                 "C12 %s(%s %s): reported value %r, model value at the final state %r" % (f.__name__, cont, D, res[0].value, E[a]))
                st.outcomes["tie" if tie else "strict"] += 1
    st.nontrivial += 1


def check_zero_random(case, st):
    kind, cont, M, DL, deg2 = build_model(case["model"])
    spin = kind == "spin"
    labels = visiting_labels(kind, cont, M, deg2)
    N = len(labels)
    E = rp.tt(DL, labels, spin)
    f = anneal_fn(kind, deg2)
    idx = {l: j for j, l in enumerate(labels)}
    for nsweeps in (1, 2):
        if N ** (nsweeps * N) > 800:
            continue
        Ts = [0.0] * nsweeps
        for start in range(1 << N):
            init = rp.assignment(start, labels, spin)
            for order in itertools.product(range(N), repeat=nsweeps * N):
                def fn():
                    import warnings
                    with warnings.catch_warnings():
                        warnings.simplefilter("ignore")
                        return f(M, num_anneals=1, initial_state=init, schedule=Ts, in_order=False, seed=0)
                res, log = tp.run(list(order), fn)
                st.traces += 1
                st.transitions += 1
                a = 0
                for l, v in res[0].state.items():
                    bit = (1 - v) // 2 if spin else v
                    a |= int(bit) << idx[l]
                if [k for k, b in log] != [1] * (nsweeps * N) or any(b != N for k, b in log):
                    # the kernel does not pick sites with one bounded draw each: the tape no longer encodes the visiting order, so
                    # only the order-independent claim is decided here (the law of the site choice is decided by the seam part)
                    st.outcomes["zero-random: site draws not of the form boundedrand(N) -> visiting order undecided, monotonicity only"] += 1
                    if E[a] > E[start] + 1e-12:
                        st.violation("zero-temp-random|energy-increased|%s" % f.__name__, dict(case, start=start, order=list(order)),
                                     "C12 %s at T=0 random order (tape %r) from %r: value increased %r -> %r" % (f.__name__, order, init, E[start], E[a]))
                    continue
                want, tie = mp.zero_temp_sweeps(E, N, start, nsweeps, order=list(order))
                if E[a] > E[start] + 1e-12:
                    st.violation("zero-temp-random|energy-increased|%s" % f.__name__, dict(case, start=start, order=list(order)),
                                 "C12 %s at T=0 random order %r from %r: value increased %r -> %r" % (f.__name__, order, init, E[start], E[a]))
                elif not tie and a != want:
                    st.violation("zero-temp-random|final-state|%s" % f.__name__, dict(case, start=start, order=list(order)),
                                 "C12 %s at T=0 visiting %r from %r: final %r, reference %r" % (f.__name__, order, init, a, want))
    st.nontrivial += 1


# ------------------------------------------------------------------ reproducibility

SEEDS = (0, 1, 12345, 2 ** 31 - 1)

REPRO_SCRIPT = r'''
import sys, json
sys.path.insert(0, %(verif)r)
from vt import paths
paths.import_qubovert("plain")
import warnings
warnings.simplefilter("ignore")
from vt.checks import c12
out = c12.repro_results()
print("REPRO " + json.dumps(out))
'''


def repro_results():
    """Run on the stock (plain) build: results of the fixed call list, as JSON-able lists."""
    import qubovert.sim as s
    out = []
    for nm in ("chain3", "field3", "qubo3", "cubic3f", "pubo3", "gap3"):
        kind, cont, M, DL, deg2 = build_model(nm)
        f = (s.anneal_quso if deg2 else s.anneal_puso) if kind == "spin" else (s.anneal_qubo if deg2 else s.anneal_pubo)
        for seed in SEEDS:
            for in_order in (True, False):
                res = f(M, num_anneals=3, anneal_duration=5, in_order=in_order, seed=seed)
                again = f(M, num_anneals=3, anneal_duration=5, in_order=in_order, seed=seed)
                ser = [[sorted(r.state.items(), key=repr), r.value] for r in res]
                ser2 = [[sorted(r.state.items(), key=repr), r.value] for r in again]
                out.append([nm, seed, in_order, ser, ser == ser2])
    return out


def check_repro(case, st):
    if case["which"] == "plain":
        outs = []
        for _ in range(2):
            p = subprocess.run([sys.executable, "-c", REPRO_SCRIPT % {"verif": paths.VERIF}], capture_output=True, text=True,
                               env=dict(os.environ, PYTHONHASHSEED="0"), cwd=paths.VERIF)
            line = [l for l in p.stdout.splitlines() if l.startswith("REPRO ")]
            if not line:
                raise HarnessError("repro subprocess failed: %s %s" % (p.stdout[-500:], p.stderr[-2000:]))
            outs.append(json.loads(line[0][6:]))
        st.traces += 2 * len(outs[0])
        st.transitions += len(outs[0])
        for a in outs[0]:
            if not a[4]:
                st.violation("reproducibility|same-process-stock-build", dict(case, model=a[0], seed=a[1], in_order=a[2]),
                             "C12 %s seed=%r in_order=%s: two identical calls in one process on the stock build returned different results" % (a[0], a[1], a[2]))
        for a, b in zip(outs[0], outs[1]):
            if a[:4] != b[:4]:
                st.violation("reproducibility|fresh-process", dict(case, model=a[0], seed=a[1], in_order=a[2]),
                             "C12 %s seed=%r in_order=%s: two fresh processes returned different results %r vs %r" % (a[0], a[1], a[2], a[3], b[3]))
        st.nontrivial += 1
        st.outcomes["distinct result lists across seeds: %d" % len({json.dumps(x[3]) for x in outs[0]})] += 1
    else:
        # scripted build: same-process repeat + seeding policy
        s = sim()
        kind, cont, M, DL, deg2 = build_model(case["model"])
        f = anneal_fn(kind, deg2)
        for seed in SEEDS + (None,):
            recs = []
            for clock in (1000, 777777):
                def fn():
                    import warnings
                    with warnings.catch_warnings():
                        warnings.simplefilter("ignore")
                        return f(M, num_anneals=2, anneal_duration=2, seed=seed)
                res, log = tp.run([], fn, clock=clock)
                sd, tcalls = tp.seeds()
                recs.append((sd, tcalls, [(sorted(r.state.items(), key=repr), r.value) for r in res]))
                st.traces += 1
                st.transitions += 1
            if seed is not None:
                (s1, t1, r1), (s2, t2, r2) = recs
                if len(s1) != 1 or s1[0][0] != seed or s1 != s2:
                    st.violation("reproducibility|seeding-policy", dict(case, seed=seed),
                                 "C12 seed=%r: generator seeded with %r / %r under two clock values (must depend on the seed alone)" % (seed, s1, s2))
                if t1 or t2:
                    st.violation("reproducibility|clock-read", dict(case, seed=seed), "C12 seed=%r: the clock was read %d times" % (seed, t1 + t2))
                if r1 != r2:
                    st.violation("reproducibility|same-process", dict(case, seed=seed), "C12 seed=%r: two identical calls differ: %r vs %r" % (seed, r1, r2))
            else:
                (s1, t1, r1), (s2, t2, r2) = recs
                st.outcomes["seed=None reads clock: %s" % (t1 > 0)] += 1
        st.nontrivial += 1


# ------------------------------------------------------------------ the generator seam, all 2^32 words

def _seam_run(args, chunks=8):
    exe = cbuild.build_randseam()
    W = 1 << 32
    edges = [W * i // chunks for i in range(chunks + 1)]
    procs = [subprocess.Popen([exe] + args + [str(lo), str(hi)], stdout=subprocess.PIPE, stderr=subprocess.PIPE, text=True)
             for lo, hi in zip(edges[:-1], edges[1:])]
    outs = []
    for pr in procs:
        o, e = pr.communicate()
        if pr.returncode != 0:
            raise HarnessError("randseam %r failed (%d): %s" % (args, pr.returncode, e[-1000:]))
        outs.append(json.loads(o))
    return outs


def _seam_probe(N):
    """First random request of a random-order zero-temperature sweep of both kernels on an N-spin chain (scripted build)."""
    qv = paths.import_qubovert()
    s = sim()
    out = []
    for f, M in ((s.anneal_quso, qv.utils.QUSOMatrix({(i, i + 1): 1 for i in range(N - 1)})),
                 (s.anneal_puso, qv.utils.PUSOMatrix({**{(i, i + 1): 1 for i in range(N - 1)}, **({(0, 1, 2): 1} if N >= 3 else {})}))):
        def fn():
            import warnings
            with warnings.catch_warnings():
                warnings.simplefilter("ignore")
                return f(M, num_anneals=1, initial_state=[1] * N, schedule=[0.0], in_order=False, seed=0)
        res, log = tp.run([], fn)
        out.append((f.__name__, log[0] if log else None))
    return out


def check_seam(case, st):
    """rand_int(N) resp. rand_double as a function of the generator word, for every one of the 2^32 words."""
    W = float(1 << 32)
    if case["what"] == "generator":
        # the vendored generator, seeded the way random.c seeds it, for every seed below the bound
        exe = cbuild.build_pcgseam()
        S = 1 << case["log2_seeds"]
        chunks = 8
        edges = [S * i // chunks for i in range(chunks + 1)]
        procs = [subprocess.Popen([exe, str(lo), str(hi)], stdout=subprocess.PIPE, stderr=subprocess.PIPE, text=True) for lo, hi in zip(edges[:-1], edges[1:])]
        outs = []
        for pr in procs:
            o, e = pr.communicate()
            if pr.returncode != 0:
                raise HarnessError("pcgseam failed (%d): %s" % (pr.returncode, e[-1000:]))
            outs.append(json.loads(o))
        nw = outs[0]["words"]
        st.traces += S
        st.transitions += S * nw
        st.nontrivial += 1
        mism = sum(o["mismatches"] for o in outs)
        buckets = [[sum(o["buckets"][i][b] for o in outs) for b in range(16)] for i in range(nw)]
        worst = max(abs(c / S - 1 / 16) for row in buckets for c in row)
        st.extra["seam_generator"] = {"seeds": S, "words_per_seed": nw, "words_differing_from_PCG32_reference": mism,
                                      "max_deviation_of_a_top-4-bit_bucket_frequency_from_1/16": worst}
        if not mism:
            st.outcomes["seam: generator stream = PCG32 reference for every seed < 2^%d" % case["log2_seeds"]] += 1
            return
        f = [o for o in outs if o["mismatches"]][0]
        if worst > 0.005:
            i, b = max(((i, b) for i in range(nw) for b in range(16)), key=lambda ib: abs(buckets[ib[0]][ib[1]] / S - 1 / 16))
            st.violation("seam|generator-not-equidistributed", case,
                         "C12 the generator as seeded by rand_init: over all %d seeds < 2^%d, word %d of the stream has its top four bits equal to %d for a fraction %.4f of the "
                         "seeds (1/16 = 0.0625 expected); first difference from the PCG32 reference at seed %d, word %d (%d instead of %d). The distribution over seeds of every "
                         "random decision that consumes this word is not the Metropolis one"
                         % (S, case["log2_seeds"], i, b, buckets[i][b] / S, f["first_seed"], f["first_pos"], f["first_got"], f["first_want"]))
        else:
            st.outcomes["seam: generator differs from the PCG32 reference but its first words are equidistributed over the seeds -> not judged"] += 1
        return
    if case["what"] == "double":
        outs = _seam_run(["double"])
        st.traces += 1 << 32
        st.transitions += 1 << 32
        st.nontrivial += 1
        dev = max(o["max_abs_dev"] for o in outs)
        nonmono = sum(o["non_monotone"] for o in outs) + sum(1 for a, b in zip(outs[:-1], outs[1:]) if b["min"] < a["max"])
        st.extra["seam_rand_double"] = {"words": 1 << 32, "max_abs_deviation_from_word_times_2^-32": dev, "non_monotone_steps": nonmono,
                                        "outside_unit_interval": sum(o["outside_unit"] for o in outs), "min": min(o["min"] for o in outs), "max": max(o["max"] for o in outs)}
        if not (dev == dev) or (nonmono == 0 and dev > 1e-9):
            # monotone in the word: P(u < p) = #{w: u(w) < p} / 2^32 is off by (about) the deviation for some p
            w = [o["worst_word"] for o in outs if o["max_abs_dev"] == dev or not (o["max_abs_dev"] == o["max_abs_dev"])][0]
            st.violation("seam|rand_double-law", case,
                         "C12 rand_double is not uniform on [0,1): at generator word %d it deviates from word * 2^-32 by %r, so P(u < exp(-dE/T)) is not the acceptance "
                         "probability (enumerated over all 2^32 words)" % (w, dev))
        elif nonmono:
            st.outcomes["seam: rand_double not monotone in the word -> law undecided here"] += 1
        return
    N = case["N"]
    outs = _seam_run(["int", str(N)])
    st.traces += 1 << 32
    st.transitions += 1 << 32
    st.nontrivial += 1
    counts = [sum(o["counts"][i] for o in outs) for i in range(N)]
    oor = sum(o["out_of_range"] for o in outs)
    bounded = sum(o["via_bounded"] for o in outs)
    law = [c / W for c in counts]
    st.extra.setdefault("seam_rand_int", {})[str(N)] = {"words": 1 << 32, "counts": counts, "out_of_range": oor, "through_boundedrand": bounded,
                                                       "multi_word_evaluations": sum(o["multi_word"] for o in outs)}
    bad = None
    if oor:
        o = [o for o in outs if o["out_of_range"]][0]
        bad = "returns %d (outside [0, %d)) at generator word %d, and for %d of the 2^32 words in total" % (o["first_oor_value"], N, o["first_oor_word"], oor)
        kind = "out-of-range"
    elif max(abs(p - 1.0 / N) for p in law) > 1e-8:
        bad = "is not uniform: P(site = i) = %s over all 2^32 generator words" % ", ".join("%.6f" % p for p in law)
        kind = "non-uniform"
    if bad is None:
        st.outcomes["seam: rand_int(%d) uniform over all words" % N] += 1
        return
    # is this what the kernels use for random visiting?  Compare the kernels' first request with the request rand_int makes.
    style = (1, N) if bounded == (1 << 32) and not sum(o["bad_bound"] for o in outs) else ((0, 0) if bounded == 0 else None)
    live = [name for name, first in _seam_probe(N) if first is not None and (style is None or tuple(first) == style)]
    if not live:
        st.outcomes["seam: rand_int(%d) %s but the kernels do not draw sites through it" % (N, kind)] += 1
        return
    st.violation("seam|rand_int-%s" % kind, case,
                 "C12 random visiting (in_order=False) on %d spins: rand_int(rng, %d) %s; %s pick the site to update with it, so visiting is not uniformly random"
                 % (N, N, bad, " and ".join(live)))


def check(case, st):
    try:
        return check_(case, st)
    except tapedfs.ReplayDivergence as e:
        # identical call, identical generator words, different execution: the result is not a function of (arguments, seed)
        st.violation("nondeterminism|%s" % case["part"], case,
                     "C12 %s: two executions of the same call with the same generator output differ (%s) -- results cannot be reproducible from the seed"
                     % ({k: v for k, v in case.items() if k != "part"}, str(e)[:300]))


def check_(case, st):
    p = case["part"]
    if p == "seam":
        return check_seam(case, st)
    if p == "dist":
        check_dist(case, st)
    elif p == "distlocal":
        check_distlocal(case, st)
    elif p == "joint":
        check_joint(case, st)
    elif p == "zero":
        check_zero(case, st)
    elif p == "zero-random":
        check_zero_random(case, st)
    else:
        check_repro(case, st)


def gen_cases(tier):
    def it():
        yield from dist_cases(tier)
        yield from local_cases(tier)
        yield from joint_cases(tier)
        yield from zero_cases(tier)
        yield {"part": "seam", "what": "generator", "log2_seeds": 24 if tier == "quick" else 31}
        yield {"part": "seam", "what": "double"}
        for n in ((2, 3, 4, 5, 8) if tier == "quick" else range(2, 17)):
            yield {"part": "seam", "what": "int", "N": n}
        yield {"part": "repro", "which": "plain"}
        for nm in ("chain3", "cubic3f", "qubo3"):
            yield {"part": "repro", "which": "scripted", "model": nm}
    return it


def run(ctx):
    from ..runner import explore_cases
    tp.lib()
    ctx.bounds = {"models": [[m[0], m[1], m[2], rp.jdict(m[3])] for m in MODELS], "temperatures": [1, 2],
                  "max_update_steps": {"in_order": 6, "random_order": 3 if ctx.quick else 4},
                  "zero_temperature_grid": "all 5^6 quadratic models over 3 spins with coefficients %s; cubic family 3*3^4; 1 and 2 sweeps; all initial states; the cubic family and every 61st quadratic model again scaled by 2^-50 and 2^40" % (GRID,),
                  "seeds": SEEDS, "tolerance": TOL}
    ctx.rule = ("case = (model, order, schedule, initial state) -> all tapes; or one zero-temperature model -> all initial states; "
                "states = distinct complete tapes (leaves); transitions = choice points expanded; non-trivial = more than one tape")
    ctx.assumptions = ["the published PCG32 algorithm yields uniform 32-bit words (the vendored copy is compared with it word for word; pcg32_boundedrand_r itself is bypassed by the shim and re-implemented in the seam driver)"]
    explore_cases(ctx, gen_cases(ctx.tier), check, label="C12", nshards=NWORKERS * 8)


def replay(case):
    tp.lib()
    st = Stats()
    base = {k: v for k, v in case.items() if k not in ("start", "Ts", "order", "seed", "in_order") or case["part"] in ("dist", "distlocal", "joint")}
    if case["part"] == "repro":
        base = {k: case[k] for k in ("part", "which", "model") if k in case}
    if case["part"] == "seam":
        base = {k: case[k] for k in ("part", "what", "N", "log2_seeds") if k in case}
    check(base, st)
    return [(s, m) for s, c, m in st.viol]
