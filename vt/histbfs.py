"""Engine B: explicit-state breadth-first search over operation histories of real objects.

A state *is* a history (list of JSON-able operation descriptors).  `step(hist)` replays the
history on fresh real objects next to the reference model and returns

    {"key": hashable canonical state (every field a future operation can read),
     "viol": [(signature, message), ...]   # oracle failures on the LAST operation
     "expand": bool                         # False: do not search below this state
     "ops": optional explicit list of enabled next operations (else `ops` is used)}

Level-synchronous BFS; each level's frontier is split over forked workers; the parent
deduplicates by canonical key.  States with a violated oracle are reported and not expanded
(sibling transitions are still explored).
"""
import json
import time
import traceback

from .runner import Stats, pmap, NWORKERS, HarnessError


def bfs(ctx, step, ops, max_depth, init=None, label="", max_states=None, count_outcome=None, wrap=None):
    st = ctx.stats
    r0 = step([])
    seen = {r0["key"]}
    frontier = [[]]
    st.states += 1
    st.traces += 1
    st.sample([], 1)
    depth = 0
    fixpoint = False
    t0 = time.time()
    per_level = []
    while frontier and depth < max_depth:
        depth += 1
        nchunks = min(len(frontier), NWORKERS * 4)
        chunks = [frontier[i::nchunks] for i in range(nchunks)]

        def work(chunk):
            ws = Stats()
            out = []
            local = set()
            for hist in chunk:
                r = step(hist) if callable(ops) else None
                enabled = ops(hist, r) if callable(ops) else ops
                for op in enabled:
                    h2 = hist + [op]
                    try:
                        r2 = step(h2)
                    except HarnessError:
                        raise
                    except Exception as e:
                        from .runner import library_exception
                        lib = library_exception(e)
                        if lib is None:
                            raise HarnessError("step crashed on history %s\n%s" % (json.dumps(h2, default=str), traceback.format_exc()))
                        r2 = {"key": None, "viol": [(lib[0], "%s history %s: %s" % (ctx.pid, json.dumps(h2, default=str)[:300], lib[1]))], "expand": False}
                    ws.transitions += 1
                    ws.traces += 1
                    ws.evaluations += 1
                    if count_outcome:
                        ws.outcomes[count_outcome(h2, r2)] += 1
                    if r2["viol"]:
                        for sig, msg in r2["viol"]:
                            ws.violation(sig, wrap(h2) if wrap else h2, msg)
                        continue
                    if not r2.get("expand", True):
                        ws.skipped[r2.get("why", "pruned")] += 1
                        continue
                    k = r2["key"]
                    if k not in local:
                        local.add(k)
                        out.append((k, h2, bool(r2.get("nontrivial", True))))
            return ws, out

        res = pmap(work, chunks)
        new = []
        for ws, out in res:
            st.merge(ws)
            for k, h2, nt in out:
                if k not in seen:
                    seen.add(k)
                    new.append(h2)
                    st.states += 1
                    if nt:
                        st.nontrivial += 1
                    if (len(seen) + ctx.seed) % 997 == 0:
                        st.sample(wrap(h2) if wrap else h2, 4)
        per_level.append(len(new))
        frontier = new
        if max_states and len(seen) > max_states:
            st.caps["max_states=%d reached at depth %d" % (max_states, depth)] += 1
            break
    if not frontier:
        fixpoint = True
    st.extra["bfs_depth_completed"] = depth
    st.extra["bfs_fixpoint"] = fixpoint
    st.extra["bfs_new_states_per_level"] = per_level
    if label:
        ctx.log("%s: states=%d transitions=%d depth=%d fixpoint=%s (%.1fs)" % (
            label, len(seen), st.transitions, depth, fixpoint, time.time() - t0))
    return seen
