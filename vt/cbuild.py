"""Build `qubovert.sim._canneal` from REPO's *current* C sources and inject it.

Variants
--------
plain          as setup.py builds it (all five sources, -O2)
asan           plain + -fsanitize=address,undefined -fno-sanitize-recover (needs LD_PRELOAD=libasan)
scripted       vendored pcg_basic.c replaced by shim/pcg_scripted.c (tape-driven RNG and clock)
scripted_asan  both

The object is cached under /verif/.cache/cbuild/<variant>-<sha>/ where <sha> covers
every source byte, the shim and the flags: a changed working tree always gets a new
build; an unchanged one is not recompiled.  A compile failure raises BuildError
(harness error, exit 2) and is never reported as a violation.
"""
import hashlib
import importlib.machinery
import importlib.util
import os
import shutil
import subprocess
import sys
import sysconfig
import tempfile

from .paths import REPO, CACHE, VERIF


class BuildError(Exception):
    pass


SIM = os.path.join(REPO, "qubovert", "sim")
SRC = os.path.join(SIM, "src")
SHIM = os.path.join(VERIF, "vt", "shim", "pcg_scripted.c")
SOURCES = ["_canneal.c", "src/pcg_basic.c", "src/random.c", "src/anneal_quso.c", "src/anneal_puso.c"]


def _flags(variant):
    # plain: the flags distutils would use for this interpreter (setup.py adds none)
    fl = (sysconfig.get_config_var("CFLAGS") or "-O2").split() + ["-fPIC", "-shared"]
    if "asan" in variant:
        fl = ["-O1", "-g", "-fPIC", "-shared", "-fno-omit-frame-pointer",
              "-fsanitize=address,undefined", "-fno-sanitize-recover=all"]
    if "scripted" in variant:
        fl += ["-Wl,-Bsymbolic"]
    return fl


def _sources(variant):
    srcs = [os.path.join(SIM, s) for s in SOURCES]
    if "scripted" in variant:
        srcs = [s for s in srcs if not s.endswith("pcg_basic.c")] + [SHIM]
    return srcs


def _digest(variant):
    h = hashlib.sha1()
    h.update(variant.encode())
    h.update(" ".join(_flags(variant)).encode())
    h.update(sys.version.encode())
    for root in (SIM, SRC):
        for fn in sorted(os.listdir(root)):
            if fn.endswith((".c", ".h")):
                with open(os.path.join(root, fn), "rb") as f:
                    h.update(fn.encode())
                    h.update(f.read())
    with open(SHIM, "rb") as f:
        h.update(f.read())
    return h.hexdigest()[:16]


def build(variant="plain"):
    """Return the path of an up-to-date `_canneal.so` of the given variant."""
    d = os.path.join(CACHE, "cbuild", "%s-%s" % (variant, _digest(variant)))
    so = os.path.join(d, "_canneal.so")
    if os.path.exists(so):
        return so
    os.makedirs(os.path.dirname(d), exist_ok=True)
    tmp = tempfile.mkdtemp(prefix="vtbuild-", dir=os.path.dirname(d))
    try:
        inc = sysconfig.get_paths()["include"]
        cmd = ["gcc"] + _flags(variant) + ["-I", SRC, "-I", inc] + _sources(variant) + \
              ["-o", os.path.join(tmp, "_canneal.so"), "-lm"]
        p = subprocess.run(cmd, capture_output=True, text=True)
        if p.returncode != 0:
            raise BuildError("building _canneal (%s) failed:\n%s\n%s" % (variant, " ".join(cmd), p.stderr[-4000:]))
        try:
            os.rename(tmp, d)
        except OSError:
            pass  # another process won the race
    finally:
        if os.path.isdir(tmp):
            shutil.rmtree(tmp, ignore_errors=True)
    _prune()
    return so


def _prune(keep=24):
    root = os.path.join(CACHE, "cbuild")
    try:
        import time
        ds = [os.path.join(root, x) for x in os.listdir(root)]
        # never touch a build in progress (vtbuild-*) unless it is clearly abandoned
        for x in ds:
            if os.path.basename(x).startswith("vtbuild-") and time.time() - os.path.getmtime(x) > 3600:
                shutil.rmtree(x, ignore_errors=True)
        ds = [x for x in ds if os.path.isdir(x) and not os.path.basename(x).startswith("vtbuild-")]
        ds.sort(key=os.path.getmtime)
        for x in ds[:-keep]:
            shutil.rmtree(x, ignore_errors=True)
    except OSError:
        pass


def inject(variant="plain"):
    """Load the variant as sys.modules['qubovert.sim._canneal'] (before qubovert is imported)."""
    if "qubovert" in sys.modules:
        raise RuntimeError("inject() must run before qubovert is imported")
    so = build(variant)
    name = "qubovert.sim._canneal"
    loader = importlib.machinery.ExtensionFileLoader(name, so)
    spec = importlib.util.spec_from_file_location(name, so, loader=loader)
    mod = importlib.util.module_from_spec(spec)
    loader.exec_module(mod)
    sys.modules[name] = mod
    return so


def asan_env():
    """Environment additions needed to load an asan variant in /venv/bin/python."""
    lib = subprocess.run(["gcc", "-print-file-name=libasan.so"], capture_output=True, text=True).stdout.strip()
    return {"LD_PRELOAD": lib,
            "ASAN_OPTIONS": "detect_leaks=0:abort_on_error=0:exitcode=86:allocator_may_return_null=1",
            "UBSAN_OPTIONS": "print_stacktrace=1:halt_on_error=1:exitcode=87"}


SEAM = os.path.join(VERIF, "vt", "shim", "randseam.c")


def build_randseam():
    """Executable that enumerates REPO's random.c (rand_int / rand_double) over all generator words."""
    h = hashlib.sha1()
    for fn in (SEAM, os.path.join(SRC, "random.c"), os.path.join(SRC, "random.h"), os.path.join(SRC, "pcg_basic.h")):
        with open(fn, "rb") as f:
            h.update(f.read())
    d = os.path.join(CACHE, "cbuild", "randseam-%s" % h.hexdigest()[:16])
    exe = os.path.join(d, "randseam")
    if os.path.exists(exe):
        return exe
    os.makedirs(os.path.dirname(d), exist_ok=True)
    tmp = tempfile.mkdtemp(prefix="vtbuild-", dir=os.path.dirname(d))
    try:
        cmd = ["gcc", "-O2", "-I", SRC, SEAM, os.path.join(SRC, "random.c"), "-o", os.path.join(tmp, "randseam"), "-lm"]
        p = subprocess.run(cmd, capture_output=True, text=True)
        if p.returncode != 0:
            raise BuildError("building randseam failed:\n%s\n%s" % (" ".join(cmd), p.stderr[-4000:]))
        try:
            os.rename(tmp, d)
        except OSError:
            pass
    finally:
        if os.path.isdir(tmp):
            shutil.rmtree(tmp, ignore_errors=True)
    return exe


PCGSEAM = os.path.join(VERIF, "vt", "shim", "pcgseam.c")


def build_pcgseam():
    """Executable that runs REPO's vendored generator, seeded as random.c seeds it, for ranges of seeds."""
    h = hashlib.sha1()
    srcs = [PCGSEAM, os.path.join(SRC, "random.c"), os.path.join(SRC, "pcg_basic.c")]
    for fn in srcs + [os.path.join(SRC, "random.h"), os.path.join(SRC, "pcg_basic.h")]:
        with open(fn, "rb") as f:
            h.update(f.read())
    d = os.path.join(CACHE, "cbuild", "pcgseam-%s" % h.hexdigest()[:16])
    exe = os.path.join(d, "pcgseam")
    if os.path.exists(exe):
        return exe
    os.makedirs(os.path.dirname(d), exist_ok=True)
    tmp = tempfile.mkdtemp(prefix="vtbuild-", dir=os.path.dirname(d))
    try:
        cmd = ["gcc", "-O2", "-I", SRC] + srcs + ["-o", os.path.join(tmp, "pcgseam"), "-lm"]
        p = subprocess.run(cmd, capture_output=True, text=True)
        if p.returncode != 0:
            raise BuildError("building pcgseam failed:\n%s\n%s" % (" ".join(cmd), p.stderr[-4000:]))
        try:
            os.rename(tmp, d)
        except OSError:
            pass
    finally:
        if os.path.isdir(tmp):
            shutil.rmtree(tmp, ignore_errors=True)
    return exe
