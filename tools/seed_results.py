#!/usr/bin/env python3
"""Collate seeded/*/meta.json into seeded/RESULTS.md."""
import json, os, glob
VERIF = os.path.dirname(os.path.dirname(os.path.abspath(__file__)))
rows = []
for mp in sorted(glob.glob(os.path.join(VERIF, "seeded", "*", "meta.json"))):
    m = json.load(open(mp))
    res = m.get("checks_run", {}).get("results", {})
    ran = ", ".join("%s:%s" % (c, "VIOLATION" if r["exit"] == 1 else ("silent" if r["exit"] == 0 else "harness-error")) for c, r in sorted(res.items()))
    sig = ""
    for c in m.get("detected_by", []):
        s = res[c].get("first_signatures") or []
        if s:
            sig = s[0].replace("signature=", "")
            break
    rows.append("| %s | %s | %s | %s | %s | %s | %s |" % (m["name"], m["property"], ", ".join(m.get("files", [])), "yes" if m.get("suite_ok") else "NO", "yes" if m.get("demo_ok") else "NO",
                                                    ", ".join(m.get("detected_by", [])) or ("none — " + m["verdict"] if m.get("verdict") else "**none**"), ("`%s`" % sig) if sig else ""))
    
with open(os.path.join(VERIF, "seeded", "RESULTS.md"), "w") as f:
    f.write("# Seeded changes (written by independent sub-agents from the property text only) and which checks report them\n\n")
    f.write("Each row: a change kept under `seeded/<name>/` (patch.diff, demo.py, meta.json). `suite green` = the repository's own suite still gives 398 passed / 2 pre-existing failures with the change; "
            "`demo` = the author's demonstration fails with and passes without the change (both re-confirmed by `tools/seed_eval.py` in a scratch worktree). Checks were run with `VERIF_REPO=<scratch worktree>`.\n\n")
    f.write("| seeded change | property | files | suite green | demo | reported by | first signature |\n|---|---|---|---|---|---|---|\n")
    f.write("\n".join(rows) + "\n\n")
    f.write("Details of every run (tier, exit codes, wall time, checks that stayed silent) are in each `meta.json`.\n")
print("\n".join(rows))
