#!/usr/bin/env python3
"""Evaluate one seeded change: confirm it (suite green, demo fails with / passes without), run checks against the
scratch worktree (VERIF_REPO), and store patch + demo + meta under /verif/seeded/<name>/.

usage: tools/seed_eval.py <name> <worktree> <property> [check ids to run ...]   (default: the property's own check)
"""
import json, os, re, subprocess, sys, shutil, time

VERIF = os.path.dirname(os.path.dirname(os.path.abspath(__file__)))
PY = "/venv/bin/python"


def sh(cmd, cwd=None, env=None, timeout=3600):
    p = subprocess.run(cmd, shell=True, cwd=cwd, env=env, capture_output=True, text=True, timeout=timeout)
    return p.returncode, p.stdout + p.stderr


def main():
    name, wt, prop = sys.argv[1:4]
    checks = sys.argv[4:] or [prop]
    tier = os.environ.get("SEED_TIER", "quick")
    out = os.path.join(VERIF, "seeded", name)
    os.makedirs(out, exist_ok=True)
    rc, patch = sh("git diff", cwd=wt)
    if not patch.strip():
        print("no change in", wt); return 2
    open(os.path.join(out, "patch.diff"), "w").write(patch)
    touches_c = ".c" in "".join(l for l in patch.splitlines() if l.startswith("+++"))
    if touches_c:
        sh("%s setup.py build_ext --inplace -q; rm -rf build" % PY, cwd=wt)
    meta = {"name": name, "property": prop, "worktree_base": sh("git rev-parse --short HEAD", cwd=wt)[1].strip(), "files": re.findall(r"^\+\+\+ b/(.*)$", patch, re.M)}
    # 1. suite with the change
    rc, o = sh("%s -m pytest -q -p no:cacheprovider -n 12 tests 2>&1 | tail -3" % PY, cwd=wt)
    meta["suite_with_change"] = o.strip().splitlines()[-1] if o.strip() else ""
    meta["suite_ok"] = "398 passed" in o and "2 failed" in o
    # 2. demo with / without
    demo = os.path.join(wt, "demo.py")
    if os.path.exists(demo):
        shutil.copy(demo, os.path.join(out, "demo.py"))
        rc1, o1 = sh("%s demo.py" % PY, cwd=wt, timeout=900)
        open(os.path.join(wt, ".seed.patch"), "w").write(patch)
        sh("git apply -R .seed.patch", cwd=wt)
        if touches_c:
            sh("%s setup.py build_ext --inplace -q; rm -rf build" % PY, cwd=wt)
        rc0, o0 = sh("%s demo.py" % PY, cwd=wt, timeout=900)
        sh("git apply .seed.patch", cwd=wt)
        if touches_c:
            sh("%s setup.py build_ext --inplace -q; rm -rf build" % PY, cwd=wt)
        os.remove(os.path.join(wt, ".seed.patch"))
        meta["demo_with_change"] = {"exit": rc1, "tail": o1.strip()[-400:]}
        meta["demo_without_change"] = {"exit": rc0, "tail": o0.strip()[-200:]}
        meta["demo_ok"] = rc1 != 0 and rc0 == 0
    else:
        meta["demo_ok"] = False
    # 3. our checks against the scratch worktree
    env = dict(os.environ, VERIF_REPO=wt)
    res = {}
    for c in checks:
        t0 = time.time()
        rc, o = sh("./vcheck %s --tier %s" % (c, tier), cwd=VERIF, env=env, timeout=7200)
        viol = [l for l in o.splitlines() if l.startswith("VIOLATION")]
        sigs = [l.strip() for l in o.splitlines() if l.strip().startswith("signature=")]
        res[c] = {"exit": rc, "violations": len(viol), "first_signatures": sigs[:4], "wall_s": round(time.time() - t0, 1),
                  "harness_error": [l for l in o.splitlines() if "HARNESS-ERROR" in l][:2]}
        print(name, c, "exit", rc, "violations", len(viol), sigs[:2])
    meta["checks_run"] = {"tier": tier, "results": res}
    meta["detected_by"] = [c for c, r in res.items() if r["exit"] == 1]
    old = {}
    mp = os.path.join(out, "meta.json")
    if os.path.exists(mp):
        old = json.load(open(mp))
        for k in ("needs_to_manifest", "description"):
            if k in old:
                meta.setdefault(k, old[k])
        prev = old.get("checks_run", {}).get("results", {})
        for c, r in prev.items():
            meta["checks_run"]["results"].setdefault(c, r)
        meta["detected_by"] = sorted(c for c, r in meta["checks_run"]["results"].items() if r["exit"] == 1)
    json.dump(meta, open(mp, "w"), indent=1)
    print(json.dumps({k: meta[k] for k in ("suite_ok", "demo_ok", "detected_by", "suite_with_change")}, indent=1))


if __name__ == "__main__":
    sys.exit(main())
