#!/usr/bin/env python3
"""Regenerate MANIFEST.json from vt/checks/*.py (META dicts) so that it always matches what exists."""
import importlib, json, os, sys
sys.path.insert(0, os.path.dirname(os.path.dirname(os.path.abspath(__file__))))
os.environ.setdefault("VERIF_NO_IMPORT", "1")
from vt.cli import checks_available

NA = []   # (property_id, reason)

def main():
    checks = []
    have = set()
    for pid in checks_available():
        mod = importlib.import_module("vt.checks." + pid.lower())
        meta = getattr(mod, "META", None)
        if not meta:
            continue
        have.add(pid)
        checks.append({
            "property_id": pid,
            "quick_cmd": "./vcheck %s --tier quick" % pid,
            "thorough_cmd": "./vcheck %s --tier thorough" % pid,
            "evidence_file": "/verif/evidence/%s.json" % pid,
            "replay_cmd_template": "./vcheck replay {path}",
            "engine": meta["engine"],
            "level_claimed": {"category": "model_checking", "text": meta["text"], "design_ref": meta.get("design_ref", "DESIGN.md section 3, " + pid)},
            "level_note": meta["note"],
            "technique": meta["technique"],
        })
    props = [json.loads(l)["id"] for l in open("properties.jsonl")]
    na = [{"property_id": p, "reason": dict(NA).get(p, "check not built yet in this revision; planned in DESIGN.md section 3")} for p in props if p not in have]
    man = {
        "version": 1,
        "setup_cmd": "./setup.sh",
        "hooks": {"guard": "JTIOSUE_QUBOVERT_VERIF", "enable": "no source hooks: every observation point is public API; the C kernels are rebuilt from /repo sources by vt/cbuild.py with the vendored pcg_basic.c replaced at link time by vt/shim/pcg_scripted.c",
                  "baseline_off_cmd": "cd /repo && /venv/bin/python -m pytest -ra -q -p no:cacheprovider --timeout=900 --continue-on-collection-errors",
                  "source_commits": [], "add_only": True},
        "engines": [
            {"name": "smallscope", "path": "vt/runner.py (explore_cases)", "serves_properties": [], "kind_free_text": "Engine A: exhaustive enumeration of a finite input space, full truth tables vs reference evaluator"},
            {"name": "histbfs", "path": "vt/histbfs.py", "serves_properties": [], "kind_free_text": "Engine B: explicit-state BFS over operation histories of the real objects with canonical state hashing"},
            {"name": "tapedfs", "path": "vt/tapedfs.py", "serves_properties": [], "kind_free_text": "Engine C: stateless DFS over all answers of a scripted RNG linked into the real C kernels"},
        ],
        "checks": checks,
        "not_applicable": na,
        "notes": "All checks run the real code of /repo's working tree (C extension rebuilt from source on every change). See DESIGN.md.",
    }
    for e in man["engines"]:
        e["serves_properties"] = [c["property_id"] for c in checks if c["engine"] == e["name"] or e["name"] in c["engine"]]
    with open("MANIFEST.json", "w") as f:
        json.dump(man, f, indent=1)
        f.write("\n")
    print("MANIFEST.json: %d checks, %d not_applicable" % (len(checks), len(na)))

if __name__ == "__main__":
    os.chdir(os.path.dirname(os.path.dirname(os.path.abspath(__file__))))
    main()
