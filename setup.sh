#!/bin/bash
# Offline setup: nothing to install.  Pre-build the C kernel variants from /repo so the first
# check does not pay for it, and make sure the output directories exist.
cd "$(dirname "${BASH_SOURCE[0]}")" || exit 1
mkdir -p evidence replays .cache
PYTHONDONTWRITEBYTECODE=1 /venv/bin/python - <<'PY' || exit 1
from vt import cbuild
for v in ("plain", "scripted", "asan", "scripted_asan"):
    print(v, cbuild.build(v))
PY
echo setup ok
